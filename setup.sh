#!/bin/bash
# Offline setup: checks the tools the checks need and pre-builds the native replay binary.
# Everything is rebuilt from files on disk; nothing is fetched.
set -e
cd "$(dirname "$0")"
export CARGO_NET_OFFLINE=true
python3-vt -c 'import z3, jsonschema; print("z3", z3.get_version_string())'
cargo kani --version
mkdir -p .build/logs evidence/replay
(cd replay && cargo build --offline --target-dir ../.build/replay 2>&1 | tail -2)
echo "setup ok"
