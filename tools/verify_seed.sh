#!/bin/bash
# usage: verify_seed.sh <worktree dir> <seed id>   - confirms a sub-agent's seeded change in its scratch worktree and files it under /verif/seeded/<seed id>/
set -u
d=$1; id=$2
cd "$d" || exit 9
export CARGO_TARGET_DIR=$d/target CARGO_NET_OFFLINE=true
out=/verif/seeded/$id; mkdir -p $out
# normalise: clean tree + patch
git checkout -q -- . ; rm -f tests/seed_demo.rs
R=""
git apply --check _seed_out/patch.diff || { echo "PATCH DOES NOT APPLY"; exit 1; }
# 1. demo on the clean tree
cp _seed_out/seed_demo.rs tests/seed_demo.rs
cargo test --offline --test seed_demo > /tmp/vs_clean.log 2>&1; rc_clean=$?
# 2. apply change: build both feature sets, existing suite (demo set aside), demo
git apply _seed_out/patch.diff
rm tests/seed_demo.rs
cargo build --offline > /tmp/vs_b1.log 2>&1; rc_b1=$?
cargo build --offline --no-default-features > /tmp/vs_b2.log 2>&1; rc_b2=$?
cargo test --workspace --no-fail-fast --offline > /tmp/vs_suite.log 2>&1; rc_suite=$?
cp _seed_out/seed_demo.rs tests/seed_demo.rs
cargo test --offline --test seed_demo > /tmp/vs_mut.log 2>&1; rc_mut=$?
rm tests/seed_demo.rs
git checkout -q -- .
echo "demo clean rc=$rc_clean (want 0) | build rc=$rc_b1/$rc_b2 | suite with change rc=$rc_suite (want 0) | demo with change rc=$rc_mut (want !=0)"
grep -E "^test result" /tmp/vs_suite.log | tr '\n' ' '; echo
grep -E "^test result" /tmp/vs_mut.log
if [ $rc_clean -eq 0 ] && [ $rc_b1 -eq 0 ] && [ $rc_b2 -eq 0 ] && [ $rc_suite -eq 0 ] && [ $rc_mut -ne 0 ]; then
  cp _seed_out/patch.diff _seed_out/seed_demo.rs $out/; cp _seed_out/NOTES.md $out/NOTES.md
  echo "SEED OK -> $out"
else
  echo "SEED REJECTED"; rmdir $out 2>/dev/null; exit 1
fi
