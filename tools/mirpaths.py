#!/usr/bin/env python3-vt
"""usage: mirpaths.py <header-regex> <fn-name> [mir-file]  - prints the symbolic paths of a function (debug aid)"""
import sys, re
sys.path.insert(0, '/verif')
from vlib import mir as M
fns = M.parse_mir(sys.argv[3] if len(sys.argv) > 3 else '/verif/.build/mir/default.mir')
for f in fns:
    if f.short == sys.argv[2] and re.search(sys.argv[1], f.impl_header or f.name):
        print('==', f.name, '|', f.impl_header[:100])
        for o in M.Exec(f).run():
            print('  --', o.kind, o.detail[:80], '| decisions', o.st.decisions)
            for e in o.trace:
                if e.callee != 'drop': print('       ', e.callee[:150], [str(a)[:40] for a in e.args], '->', e.result)
            print('      value:', repr(o.value)[:300])
