#!/bin/bash
# usage: try_seed.sh <patch.diff> <property> [tier]  - applies a seeded change to /repo, runs the check, always reverts
set -u
patch=$1; prop=$2; tier=${3:-quick}
cd /repo || exit 9
if [ -n "$(git status --porcelain --untracked-files=no)" ]; then echo "/repo not clean"; exit 9; fi
git apply "$patch" || { echo "patch does not apply"; exit 9; }
cd /verif
python3-vt run_check.py "$prop" "$tier"; rc=$?
cp evidence/$prop.json /tmp/seed_evidence_$prop.json 2>/dev/null
git -C /repo checkout -- . 
git -C /verif checkout -- evidence 2>/dev/null
echo "check exit code: $rc"
exit $rc
