#!/bin/bash
# mkref.sh <name> <patch>: dump default MIR of patched tree to /tmp/ref_<name>.mir
n=$1; p=$2
cd /tmp/wt-mir && git checkout -q -- . && git apply $p || exit 1
touch src/lib.rs
CARGO_TARGET_DIR=/tmp/wt-mir/target-default cargo +nightly rustc --offline --lib -- -Zunpretty=mir -C debug-assertions=off > /tmp/ref_$n.mir 2>/tmp/ref_$n.err || { tail -5 /tmp/ref_$n.err; exit 1; }
rm -rf /tmp/refroot/$n; mkdir -p /tmp/refroot/$n; cp -r src /tmp/refroot/$n/; [ -d shred-derive ] && cp -r shred-derive /tmp/refroot/$n/ 
git checkout -q -- .
wc -l /tmp/ref_$n.mir
