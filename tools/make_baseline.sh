#!/bin/bash
# Snapshot of the reviewed tree (current /repo HEAD, must be clean): MIR dumps + sources.
# E2 uses it only to recognise behaviour-preserving refactorings (vlib/canon.py); regenerate after every
# deliberate change of /repo (hook or fix commit).
set -e
cd /repo
test -z "$(git status --porcelain --untracked-files=no)" || { echo "/repo is not clean"; exit 1; }
B=/verif/mir/baseline
rm -rf $B; mkdir -p $B
export CARGO_NET_OFFLINE=true
T=/verif/.build/mir/target-baseline
for kind in default debug nopar; do
  rm -rf $T/debug/.fingerprint/shred-[0-9a-f]* 2>/dev/null || true
  extra=""; flags="-C debug-assertions=off"
  [ $kind = nopar ] && extra="--no-default-features"
  [ $kind = debug ] && flags=""
  cargo +nightly rustc --offline --lib --target-dir $T $extra -- -Zunpretty=mir $flags > $B/$kind.mir 2>/dev/null
  test -s $B/$kind.mir
done
cp -r /repo/src $B/src
git rev-parse HEAD > $B/COMMIT
ls -la $B
