#!/usr/bin/env python3
"""Writes kani/src/step_instances.in: the concrete instance parameters of the planner step harness.
The list is committed; this script only documents how it was produced."""
import itertools, os
out = []
def inst(s, g, l, nr, nw, bar, deps, newr, neww):
    dn = {'None': '0', 'One': '1', 'Two': '2', 'TwoEqual': '2e', 'ThreeAba': '3aba', 'FiveSame': '5s'}[deps]
    name = f"step_s{s}g{g}l{l}_r{nr}w{nw}_b{bar}_d{dn}_n{newr}{neww}"
    unw = max(s, g, l, nr + nw, newr, neww, 2, (s * g * l) if deps != 'None' else 0, 5 if deps == 'FiveSame' else 0) + 3     # the id permutation loops over all n slots
    out.append(f"    {name} : {s}, {g}, {l}, {nr}, {nw}, {bar}, Deps::{deps}, {newr}, {neww}, {unw}")
shapes_q = [(1,1,1),(1,2,1),(2,1,1),(2,2,1)]
shapes_t = [(1,2,2),(1,3,1),(3,1,1),(2,2,2),(1,1,3),(1,1,4),(1,2,4),(2,1,2),(3,2,1)]
# a full group (5 = ArrayVec capacity) next to another one: within the invariant len <= capacity although the
# unchanged planner never fills a group beyond 4; a joined group must still have room
inst(1,2,5,1,1,0,'None',1,1)
inst(1,2,5,1,1,0,'One',1,1) if False else None
for (s,g,l) in shapes_q + shapes_t:
    bars = sorted(set([0, max(s-1,0), s]))
    for bar in bars:
        for deps in ['None','One','Two','TwoEqual','ThreeAba']:
            if deps in ('Two','ThreeAba') and s*g*l < 2: continue
            inst(s,g,l,1,1,bar,deps,1,1)
# richer access sets on the small shapes
for (s,g,l) in [(1,2,1),(2,1,1),(2,2,1)]:
    for deps in ['None','One']:
        inst(s,g,l,2,2,0,deps,2,2)
        inst(s,g,l,2,1,0,deps,1,2)
# three entries in one access list (new system or group table): size thresholds in list handling (seed C19-u)
inst(1,1,1,1,1,0,'None',1,3)
inst(1,1,1,1,1,0,'None',3,1)
inst(1,2,1,2,1,0,'None',1,3)
inst(1,1,1,3,1,0,'None',1,1)
inst(1,1,1,1,3,0,'None',1,1)
# five entries in the dependency list (beyond its inline capacity of 4; seed C18-x)
inst(1,1,1,1,1,0,'FiveSame',1,1)
inst(1,2,1,1,1,0,'FiveSame',1,1)
inst(2,1,1,1,1,1,'FiveSame',1,1)
seen=set(); uniq=[]
for o in out:
    n=o.split(':')[0].strip()
    if n not in seen: seen.add(n); uniq.append(o)
path=os.path.join(os.path.dirname(__file__),'..','kani','src','step_instances.in')
open(path,'w').write("step_instances! {\n"+";\n".join(uniq)+";\n}\n")
print(len(uniq),"instances")
