#!/usr/bin/env python3-vt
"""Lists, per property, the functions of its anchored files (properties.jsonl) that none of its E2 specifications
executes symbolically (tag NONE: no property's specs touch it; other-prop: only another property's). A maintenance aid:
five seeded defects of rounds 4/5 sat in exactly such functions. Kani-covered functions (planner, executor) show up
here too - the list is read by a human."""
import sys, re, json
sys.path.insert(0,'/verif')
from vlib import mirchecks as C, mir as M
props={}
for l in open('/verif/properties.jsonl'):
    p=json.loads(l); props[p['id']]=p
ctx0 = C.Ctx('X')
allf = [f for f in ctx0.fns() if 'tests::' not in f.name and '::verif_' not in f.name]
def file_of(f):
    m = re.search(r'(src/[\w/]+\.rs)', f.impl_header or '') or re.search(r'(src/[\w/]+\.rs)', f.name)
    return m.group(1) if m else None
# module path -> file for free fns
covered_any=set()
percov={}
for pid in sorted(C.SPECS):
    ctx = C.Ctx(pid)
    for entry in C.SPECS[pid]:
        title, fn = entry[0], entry[1]
        try: fn(ctx)
        except Exception as e: print('EXC', pid, fn.__name__, e)
    percov[pid]=set(ctx.functions)
    covered_any |= percov[pid]
KANI = r'stage\.rs.*(insertion_target|find_conflict|remove_ids|improves_balance|insert|add_stage|add_group|add_barrier|fetch_all|execute|setup|dispose|max_threads|new)|util\.rs|send_dispatcher\.rs|dispatcher\.rs'
for pid in sorted(props):
    if pid in ('C14','C15'): continue
    files = props[pid]['anchors']['files']
    print('==', pid)
    for f in allf:
        fl = file_of(f)
        if fl is None or not any(fl.endswith(x.replace('shred-derive/','')) or x.endswith(fl) for x in files): continue
        if f.name in percov.get(pid,()): continue
        tag = 'other-prop' if f.name in covered_any else 'NONE'
        if re.search(r'::(fmt|clone|default|eq|hash|cmp|partial_cmp|assert_fields_are_eq|drop)$', f.name): continue
        print('   ', tag, re.sub(r'<impl at (src/[\w/]+\.rs):(\d+).*?>', r'<\1:\2>', f.name)[:110])
