#!/usr/bin/env python3-vt
"""Regenerates MANIFEST.json from vlib/manifest_data.py (kept by hand) and validates it."""
import json, os, sys
VERIF = os.path.join(os.path.dirname(os.path.abspath(__file__)), '..')
sys.path.insert(0, VERIF)
from vlib import manifest_data as M
import jsonschema
checks = []
for pid, c in sorted(M.CHECKS.items()):
    checks.append({
        'property_id': pid,
        'quick_cmd': 'python3-vt run_check.py %s quick' % pid,
        'thorough_cmd': 'python3-vt run_check.py %s thorough' % pid,
        'evidence_file': '/verif/evidence/%s.json' % pid,
        'replay_cmd_template': 'python3-vt run_check.py --replay {path}',
        'engine': c['engine'],
        'level_claimed': {'category': c['category'], 'text': c['text'], 'design_ref': c['design_ref']},
        'level_note': c['note'],
        'technique': c['technique'],
    })
man = {
    'version': 1,
    'setup_cmd': './setup.sh',
    'hooks': M.HOOKS,
    'engines': M.ENGINES,
    'checks': checks,
    'notes': M.NOTES,
    'not_applicable': [{'property_id': p, 'reason': r} for p, r in sorted(M.NOT_APPLICABLE.items()) if p not in M.CHECKS],
}
jsonschema.validate(man, json.load(open('/root/.vp/MANIFEST.schema.json')))
json.dump(man, open(os.path.join(VERIF, 'MANIFEST.json'), 'w'), indent=1)
ids = [json.loads(l)['id'] for l in open(os.path.join(VERIF, 'properties.jsonl'))]
missing = [i for i in ids if i not in M.CHECKS and i not in M.NOT_APPLICABLE]
print('manifest ok:', len(checks), 'checks,', len(man['not_applicable']), 'not applicable; unlisted:', missing)
