#!/usr/bin/env python3-vt
"""usage: equiv_matrix.py [-v] <name>...   - development aid for vlib/canon.py (DESIGN §3.6, 'the matrix').
For every <name> a MIR dump /tmp/ref_<name>.mir and sources /tmp/refroot/<name>/ of a patched tree are expected
(tools/mkref.sh <name> <patch> makes them in a scratch worktree /tmp/wt-mir: `git -C /repo worktree add --detach /tmp/wt-mir HEAD`).
Prints, function by function, whether a changed body is canonically equivalent to the reviewed baseline. A seeded defect
must never have an equivalent changed function (unless explained); a behaviour-preserving refactoring should."""
import sys, re, traceback
sys.path.insert(0,'/verif')
from vlib import mir as M, canon as C
base = M.parse_mir('/verif/mir/baseline/default.mir', '/verif/mir/baseline')
known = set(f.short for f in base)
stats = {'feasibility_queries': 0, 'solver_s': 0.0}
def key(f): return (re.sub(r':\d+:\d+: \d+:\d+', '', f.impl_header), f.short)
bidx = {}
for f in base: bidx.setdefault(key(f), []).append(f)
for n in [a for a in sys.argv[1:] if a != "-v"]:
    cur = M.parse_mir('/tmp/ref_%s.mir' % n, '/tmp/refroot/%s' % n)
    cprog = C.Program(cur, known, set(C.fn_key(f) for f in base)); bprog = C.Program(base, known, set(C.fn_key(f) for f in cur))
    cidx = {}
    for f in cur: cidx.setdefault(key(f), []).append(f)
    changed = eq = 0
    for k, fs in cidx.items():
        bs = bidx.get(k)
        if not bs or len(bs) != len(fs) or 'tests::' in fs[0].name: continue
        for f, b in zip(fs, bs):
            from vlib.mirchecks import _body_text
            if _body_text(f) == _body_text(b): continue
            changed += 1
            ok, a, bb = C.equivalent(f, cprog, b, bprog, stats)
            eq += ok
            print(n, 'EQUIV' if ok else 'DIFF ', f.short, '|', f.impl_header[:60])
            if not ok and a is not None and '-v' in sys.argv:
                import difflib
                for l in list(difflib.unified_diff(bb, a, lineterm='', n=0))[:12]: print('     ', l[:400])
            if a is None: print('      (unsupported)')
    print('==', n, changed, 'changed bodies,', eq, 'equivalent')
