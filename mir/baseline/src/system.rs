use std::{marker::PhantomData, ops::Deref};

use crate::{ResourceId, World};

/// A trait for accessing read/write multiple resources from a system. This can
/// be used to create dynamic systems that don't specify what they fetch at
/// compile-time.
///
/// For compile-time system data this will all be done for you using
/// `StaticAccessor`.
pub trait Accessor: Sized {
    /// Tries to create a new instance of this type. This one returns `Some` in
    /// case there is a default, otherwise the system needs to override
    /// `System::accessor`.
    fn try_new() -> Option<Self>;

    /// A list of [`ResourceId`]s the bundle
    /// needs read access to in order to
    /// build the target resource bundle.
    ///
    /// # Contract
    ///
    /// Exactly return the dependencies you're going to `fetch`! Doing otherwise
    /// *will* cause a panic.
    ///
    /// This method is only executed once,
    /// thus the returned value may never change
    /// (otherwise it has no effect).
    ///
    /// [`ResourceId`]: struct.ResourceId.html
    fn reads(&self) -> Vec<ResourceId>;

    /// A list of [`ResourceId`]s the bundle
    /// needs write access to in order to
    /// build the target resource bundle.
    ///
    /// # Contract
    ///
    /// Exactly return the dependencies you're going to `fetch`! Doing otherwise
    /// *will* cause a panic.
    ///
    /// This method is only executed once,
    /// thus the returned value may never change
    /// (otherwise it has no effect).
    ///
    /// [`ResourceId`]: struct.ResourceId.html
    fn writes(&self) -> Vec<ResourceId>;
}

impl Accessor for () {
    fn try_new() -> Option<Self> {
        None
    }

    fn reads(&self) -> Vec<ResourceId> {
        Vec::new()
    }

    fn writes(&self) -> Vec<ResourceId> {
        Vec::new()
    }
}

impl<T: ?Sized> Accessor for PhantomData<T> {
    fn try_new() -> Option<Self> {
        None
    }

    fn reads(&self) -> Vec<ResourceId> {
        Vec::new()
    }

    fn writes(&self) -> Vec<ResourceId> {
        Vec::new()
    }
}

/// Either an `Accessor` of the system `T` or a reference to it.
pub enum AccessorCow<'a, 'b, T>
where
    AccessorTy<'a, T>: 'b,
    T: System<'a> + ?Sized,
    'a: 'b,
{
    /// A reference to an accessor.
    Ref(&'b AccessorTy<'a, T>),
    /// An owned accessor.
    Owned(AccessorTy<'a, T>),
}

impl<'a, 'b, T> Deref for AccessorCow<'a, 'b, T>
where
    AccessorTy<'a, T>: 'b,
    T: System<'a> + ?Sized + 'b,
    'a: 'b,
{
    type Target = AccessorTy<'a, T>;

    fn deref(&self) -> &AccessorTy<'a, T> {
        match self {
            AccessorCow::Ref(r) => r,
            AccessorCow::Owned(ref o) => o,
        }
    }
}

type AccessorTy<'a, T> = <<T as System<'a>>::SystemData as DynamicSystemData<'a>>::Accessor;

/// Trait for fetching data and running systems. Automatically implemented for
/// systems.
pub trait RunNow<'a> {
    /// Runs the system now.
    ///
    /// # Panics
    ///
    /// Panics if the system tries to fetch resources
    /// which are borrowed in an incompatible way already
    /// (tries to read from a resource which is already written to or
    /// tries to write to a resource which is read from).
    fn run_now(&mut self, world: &'a World);

    /// Sets up `World` for a later call to `run_now`.
    fn setup(&mut self, world: &mut World);

    /// Performs clean up that requires resources from the `World`.
    /// This commonly removes components from `world` which depend on external
    /// resources.
    #[allow(clippy::boxed_local)]
    fn dispose(self: Box<Self>, world: &mut World) {
        let _ = world;
    }
}

impl<'a, T> RunNow<'a> for T
where
    T: System<'a>,
{
    fn run_now(&mut self, world: &'a World) {
        let data = T::SystemData::fetch(&self.accessor(), world);
        self.run(data);
    }

    fn setup(&mut self, world: &mut World) {
        T::setup(self, world);
    }

    fn dispose(self: Box<Self>, world: &mut World) {
        T::dispose(*self, world);
    }
}

#[repr(u8)]
#[allow(missing_docs)]
#[derive(Clone, Copy, Debug)]
pub enum RunningTime {
    VeryShort = 1,
    Short = 2,
    Average = 3,
    Long = 4,
    VeryLong = 5,
}

/// A `System`, executed with a set of required [`Resource`]s.
///
/// [`Resource`]: trait.Resource.html
pub trait System<'a> {
    /// The resource bundle required to execute this system.
    ///
    /// You will mostly use a tuple of system data (which also implements
    /// `SystemData`). You can also create such a resource bundle by simply
    /// deriving `SystemData` for a struct.
    ///
    /// Every `SystemData` is also a `DynamicSystemData`.
    type SystemData: DynamicSystemData<'a>;

    /// Executes the system with the required system
    /// data.
    fn run(&mut self, data: Self::SystemData);

    /// Returns a hint how long the system needs for running.
    /// This is used to optimize the way they're executed (might
    /// allow more parallelization).
    ///
    /// Defaults to `RunningTime::Average`.
    fn running_time(&self) -> RunningTime {
        RunningTime::Average
    }

    /// Return the accessor from the [`SystemData`].
    fn accessor<'b>(&'b self) -> AccessorCow<'a, 'b, Self> {
        AccessorCow::Owned(
            AccessorTy::<'a, Self>::try_new().expect("Missing implementation for `accessor`"),
        )
    }

    /// Sets up the `World` using `Self::SystemData::setup`.
    fn setup(&mut self, world: &mut World) {
        <Self::SystemData as DynamicSystemData>::setup(&self.accessor(), world)
    }

    /// Performs clean up that requires resources from the `World`.
    /// This commonly removes components from `world` which depend on external
    /// resources.
    fn dispose(self, world: &mut World)
    where
        Self: Sized,
    {
        let _ = world;
    }
}

/// A static system data that can specify its dependencies at statically (at
/// compile-time). Most system data is a `SystemData`, the `DynamicSystemData`
/// type is only needed for very special setups.
///
/// You can derive this using the `#[derive(SystemData)]` macro provided by
/// `shred-derive`. That is as simple as enabling the `shred-derive` feature.
///
/// # Examples
///
/// ```rust
/// use shred::{Read, ResourceId, SystemData, World, Write};
///
/// #[derive(Default)]
/// pub struct Clock;
/// #[derive(Default)]
/// pub struct Timer;
///
/// // This will implement `SystemData` for `MySystemData`.
/// // Please note that this will only work if `SystemData`, `World` and `ResourceId` are included.
/// # #[cfg(feature = "shred-derive")]
/// #[derive(SystemData)]
/// pub struct MySystemData<'a> {
///     pub clock: Read<'a, Clock>,
///     pub timer: Write<'a, Timer>,
/// }
/// #
/// # // The following is required for the snippet to compile without the `shred-derive` feature.
/// #
/// # #[cfg(not(feature = "shred-derive"))]
/// # struct MySystemData<'a> {
/// #     pub clock: Read<'a, Clock>,
/// #     pub timer: Write<'a, Timer>,
/// # }
/// #
/// # #[cfg(not(feature = "shred-derive"))]
/// # impl<'a> SystemData<'a> for MySystemData<'a> {
/// #     fn setup(world: &mut World) {
/// #         Read::<'_, Clock>::setup(world);
/// #         Write::<'_, Timer>::setup(world);
/// #     }
/// #
/// #     fn fetch(world: &'a World) -> Self {
/// #         Self {
/// #             clock: Read::<'_, Clock>::fetch(world),
/// #             timer: Write::<'_, Timer>::fetch(world),
/// #         }
/// #     }
/// #
/// #     fn reads() -> Vec<ResourceId> {
/// #         Read::<'_, Clock>::reads()
/// #     }
/// #
/// #     fn writes() -> Vec<ResourceId> {
/// #         Write::<'_, Timer>::writes()
/// #     }
/// # }
/// ```
pub trait SystemData<'a> {
    /// Sets up the system data for fetching it from the `World`.
    fn setup(world: &mut World);

    /// Fetches the system data from `World`. Note that this is only specified
    /// for one concrete lifetime `'a`, you need to implement the
    /// `SystemData` trait for every possible lifetime.
    fn fetch(world: &'a World) -> Self;

    /// Returns all read dependencies as fetched from `Self::fetch`.
    ///
    /// Please note that returning wrong dependencies can lead to a panic.
    fn reads() -> Vec<ResourceId>;

    /// Returns all write dependencies as fetched from `Self::fetch`.
    ///
    /// Please note that returning wrong dependencies can lead to a panic.
    fn writes() -> Vec<ResourceId>;
}

impl<'a, T> DynamicSystemData<'a> for T
where
    T: SystemData<'a>,
{
    type Accessor = StaticAccessor<T>;

    fn setup(_: &StaticAccessor<T>, world: &mut World) {
        T::setup(world);
    }

    fn fetch(_: &StaticAccessor<T>, world: &'a World) -> Self {
        T::fetch(world)
    }
}

impl<'a> SystemData<'a> for () {
    fn setup(_: &mut World) {}

    fn fetch(_: &'a World) -> Self {}

    fn reads() -> Vec<ResourceId> {
        Vec::new()
    }

    fn writes() -> Vec<ResourceId> {
        Vec::new()
    }
}

/// The static accessor that is used for `SystemData`.
#[derive(Default)]
pub struct StaticAccessor<T> {
    marker: PhantomData<fn() -> T>,
}

impl<'a, T> Accessor for StaticAccessor<T>
where
    T: SystemData<'a>,
{
    fn try_new() -> Option<Self> {
        Some(StaticAccessor {
            marker: PhantomData,
        })
    }

    fn reads(&self) -> Vec<ResourceId> {
        T::reads()
    }

    fn writes(&self) -> Vec<ResourceId> {
        T::writes()
    }
}

/// A struct implementing system data indicates that it bundles some resources
/// which are required for the execution.
///
/// This is the more flexible, but complex variant of `SystemData`.
pub trait DynamicSystemData<'a> {
    /// The accessor of the `SystemData`, which specifies the read and write
    /// dependencies and does the fetching.
    type Accessor: Accessor;

    /// Sets up `World` for fetching this system data.
    fn setup(accessor: &Self::Accessor, world: &mut World);

    /// Creates a new resource bundle
    /// by fetching the required resources
    /// from the [`World`] struct.
    ///
    /// # Contract
    ///
    /// Only fetch the resources you returned from `reads` / `writes`!
    ///
    /// # Panics
    ///
    /// This function may panic if the above contract is violated.
    /// This function may panic if the resource doesn't exist. This is only the
    /// case if either `setup` was not called or it didn't insert any
    /// fallback value.
    ///
    /// [`World`]: trait.World.html
    fn fetch(access: &Self::Accessor, world: &'a World) -> Self;
}

impl<T: ?Sized> SystemData<'_> for PhantomData<T> {
    fn setup(_: &mut World) {}

    fn fetch(_: &World) -> Self {
        PhantomData
    }

    fn reads() -> Vec<ResourceId> {
        Vec::new()
    }

    fn writes() -> Vec<ResourceId> {
        Vec::new()
    }
}

macro_rules! impl_data {
    ( $($ty:ident),* ) => {
        impl<'a, $($ty),*> SystemData<'a> for ( $( $ty , )* )
            where $( $ty : SystemData<'a> ),*
            {
                fn setup(world: &mut World) {
                    #![allow(unused_variables)]

                    $(
                        <$ty as SystemData>::setup(&mut *world);
                     )*
                }

                fn fetch(world: &'a World) -> Self {
                    #![allow(unused_variables)]

                    ( $( <$ty as SystemData<'a>>::fetch(world), )* )
                }

                fn reads() -> Vec<ResourceId> {
                    #![allow(unused_mut)]

                    let mut r = Vec::new();

                    $( {
                        let mut reads = <$ty as SystemData>::reads();
                        r.append(&mut reads);
                    } )*

                    r
                }

                fn writes() -> Vec<ResourceId> {
                    #![allow(unused_mut)]

                    let mut r = Vec::new();

                    $( {
                        let mut writes = <$ty as SystemData>::writes();
                        r.append(&mut writes);
                    } )*

                    r
                }
            }
    };
}

mod impl_data {
    #![cfg_attr(rustfmt, rustfmt_skip)]

    use super::*;

    impl_data!(A);
    impl_data!(A, B);
    impl_data!(A, B, C);
    impl_data!(A, B, C, D);
    impl_data!(A, B, C, D, E);
    impl_data!(A, B, C, D, E, F);
    impl_data!(A, B, C, D, E, F, G);
    impl_data!(A, B, C, D, E, F, G, H);
    impl_data!(A, B, C, D, E, F, G, H, I);
    impl_data!(A, B, C, D, E, F, G, H, I, J);
    impl_data!(A, B, C, D, E, F, G, H, I, J, K);
    impl_data!(A, B, C, D, E, F, G, H, I, J, K, L);
    impl_data!(A, B, C, D, E, F, G, H, I, J, K, L, M);
    impl_data!(A, B, C, D, E, F, G, H, I, J, K, L, M, N);
    impl_data!(A, B, C, D, E, F, G, H, I, J, K, L, M, N, O);
    impl_data!(A, B, C, D, E, F, G, H, I, J, K, L, M, N, O, P);
    impl_data!(A, B, C, D, E, F, G, H, I, J, K, L, M, N, O, P, Q);
    impl_data!(A, B, C, D, E, F, G, H, I, J, K, L, M, N, O, P, Q, R);
    impl_data!(A, B, C, D, E, F, G, H, I, J, K, L, M, N, O, P, Q, R, S);
    impl_data!(A, B, C, D, E, F, G, H, I, J, K, L, M, N, O, P, Q, R, S, T);
    impl_data!(A, B, C, D, E, F, G, H, I, J, K, L, M, N, O, P, Q, R, S, T, U);
    impl_data!(A, B, C, D, E, F, G, H, I, J, K, L, M, N, O, P, Q, R, S, T, U, V);
    impl_data!(A, B, C, D, E, F, G, H, I, J, K, L, M, N, O, P, Q, R, S, T, U, V, W);
    impl_data!(A, B, C, D, E, F, G, H, I, J, K, L, M, N, O, P, Q, R, S, T, U, V, W, X);
    impl_data!(A, B, C, D, E, F, G, H, I, J, K, L, M, N, O, P, Q, R, S, T, U, V, W, X, Y);
    impl_data!(A, B, C, D, E, F, G, H, I, J, K, L, M, N, O, P, Q, R, S, T, U, V, W, X, Y, Z);
}
