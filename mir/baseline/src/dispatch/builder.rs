use std::{collections::hash_map::Entry, fmt};

use ahash::AHashMap as HashMap;

#[cfg(feature = "parallel")]
use crate::dispatch::dispatcher::ThreadPoolWrapper;
use crate::{
    dispatch::{
        BatchAccessor, BatchController, Dispatcher,
        batch::BatchControllerSystem,
        dispatcher::{SystemId, ThreadLocal},
        stage::StagesBuilder,
    },
    system::{RunNow, System, SystemData},
};

/// Builder for the [`Dispatcher`].
///
/// [`Dispatcher`]: struct.Dispatcher.html
///
/// ## Barriers
///
/// Barriers are a way of sequentializing parts of
/// the system execution. See `add_barrier()`/`with_barrier()`.
///
/// ## Examples
///
/// This is how you create a dispatcher with
/// a shared thread pool:
///
/// ```rust
/// # #![allow(unused)]
/// #
/// # extern crate shred;
/// # #[macro_use]
/// # extern crate shred_derive;
/// # use shred::{Dispatcher, DispatcherBuilder, Read, ResourceId, World, System, SystemData};
/// # #[derive(Debug, Default)] struct Res;
/// # #[derive(SystemData)] #[allow(unused)] struct Data<'a> { a: Read<'a, Res> }
/// # struct Dummy;
/// # impl<'a> System<'a> for Dummy {
/// #   type SystemData = Data<'a>;
/// #
/// #   fn run(&mut self, _: Data<'a>) {}
/// # }
/// #
/// # fn main() {
/// # let system_a = Dummy;
/// # let system_b = Dummy;
/// # let system_c = Dummy;
/// # let system_d = Dummy;
/// # let system_e = Dummy;
/// let dispatcher: Dispatcher = DispatcherBuilder::new()
///     .with(system_a, "a", &[])
///     .with(system_b, "b", &["a"]) // b depends on a
///     .with(system_c, "c", &["a"]) // c also depends on a
///     .with(system_d, "d", &[])
///     .with(system_e, "e", &["c", "d"]) // e executes after c and d are finished
///     .build();
/// # }
/// ```
///
/// Systems can be conditionally added by using the `add_` functions:
///
/// ```rust
/// # #![allow(unused)]
/// #
/// # extern crate shred;
/// # #[macro_use]
/// # extern crate shred_derive;
/// # use shred::{Dispatcher, DispatcherBuilder, Read, ResourceId, World, System, SystemData};
/// # #[derive(Debug, Default)] struct Res;
/// # #[derive(SystemData)] #[allow(unused)] struct Data<'a> { a: Read<'a, Res> }
/// # struct Dummy;
/// # impl<'a> System<'a> for Dummy {
/// #   type SystemData = Data<'a>;
/// #
/// #   fn run(&mut self, _: Data<'a>) {}
/// # }
/// #
/// # fn main() {
/// # let b_enabled = true;
/// # let system_a = Dummy;
/// # let system_b = Dummy;
/// let mut builder = DispatcherBuilder::new()
///     .with(system_a, "a", &[]);
///
/// if b_enabled {
///    builder.add(system_b, "b", &[]);
/// }
///
/// let dispatcher = builder.build();
/// # }
/// ```
#[derive(Default)]
pub struct DispatcherBuilder<'a, 'b> {
    current_id: usize,
    map: HashMap<String, SystemId>,
    pub(crate) stages_builder: StagesBuilder<'a>,
    thread_local: ThreadLocal<'b>,
    #[cfg(feature = "parallel")]
    thread_pool: ::std::sync::Arc<::std::sync::RwLock<ThreadPoolWrapper>>,
}

impl<'a, 'b> DispatcherBuilder<'a, 'b> {
    /// Creates a new `DispatcherBuilder` by using the `Default` implementation.
    ///
    /// The default behaviour is to create a thread pool on `finish`.
    /// If you already have a rayon `ThreadPool`, it's highly recommended to
    /// configure this builder to use it with `with_pool` instead.
    pub fn new() -> Self {
        Default::default()
    }

    /// Returns whether or not any system has been added to the builder
    pub fn is_empty(&self) -> bool {
        self.map.is_empty()
    }

    /// Returns the number of systems added to the builder
    pub fn num_systems(&self) -> usize {
        self.map.len()
    }

    /// Returns whether or not a specific system has been added to the builder
    /// This is useful as [`add()`](struct.DispatcherBuilder.html#method.add)
    /// will throw if a dependency does not exist So you can use this
    /// function to check if dependencies are satisfied
    pub fn has_system(&self, system: &str) -> bool {
        self.map.contains_key(system)
    }

    /// Adds a new system with a given name and a list of dependencies.
    /// Please note that the dependency should be added before
    /// you add the depending system.
    ///
    /// If you want to register systems which can not be specified as
    /// dependencies, you can use `""` as their name, which will not panic
    /// (using another name twice will).
    ///
    /// Same as [`add()`](struct.DispatcherBuilder.html#method.add), but
    /// returns `self` to enable method chaining.
    ///
    /// # Panics
    ///
    /// * if the specified dependency does not exist
    /// * if a system with the same name was already registered.
    pub fn with<T>(mut self, system: T, name: &str, dep: &[&str]) -> Self
    where
        T: for<'c> System<'c> + Send + 'a,
    {
        self.add(system, name, dep);

        self
    }

    /// Adds a new system with a given name and a list of dependencies.
    /// Please note that the dependency should be added before
    /// you add the depending system.
    ///
    /// If you want to register systems which can not be specified as
    /// dependencies, you can use `""` as their name, which will not panic
    /// (using another name twice will).
    ///
    /// # Panics
    ///
    /// * if the specified dependency does not exist
    /// * if a system with the same name was already registered.
    pub fn add<T>(&mut self, system: T, name: &str, dep: &[&str])
    where
        T: for<'c> System<'c> + Send + 'a,
    {
        let id = self.next_id();

        let dependencies = dep
            .iter()
            .map(|x| {
                *self
                    .map
                    .get(*x)
                    .unwrap_or_else(|| panic!("No such system registered (\"{}\")", *x))
            })
            .collect();

        if !name.is_empty() {
            if let Entry::Vacant(e) = self.map.entry(name.to_owned()) {
                e.insert(id);
            } else {
                panic!(
                    "Cannot insert multiple systems with the same name (\"{}\")",
                    name
                );
            }
        }

        self.stages_builder.insert(dependencies, id, system);
    }

    /// Returns `true` if a system with the given name has been added to the
    /// `BispatcherBuilder`, otherwise, returns false.
    pub fn contains(&self, name: &str) -> bool {
        self.map.contains_key(name)
    }

    /// The `Batch` is a `System` which contains a `Dispatcher`.
    /// By wrapping a `Dispatcher` inside a system, we can control the execution
    /// of a whole group of system, without sacrificing parallelism or
    /// conciseness.
    ///
    /// This function accepts the `DispatcherBuilder` as parameter, and the type
    /// of the `System` that will drive the execution of the internal
    /// dispatcher.
    ///
    /// Note that depending on the dependencies of the SubSystems the Batch
    /// can run in parallel with other Systems.
    /// In addition the Sub Systems can run in parallel within the Batch.
    ///
    /// The `Dispatcher` created for this `Batch` is completelly separate,
    /// from the parent `Dispatcher`.
    /// This mean that the dependencies, the `System` names, etc.. specified on
    /// the `Batch` `Dispatcher` are not visible on the parent, and is not
    /// allowed to specify cross dependencies.
    pub fn with_batch<T>(
        mut self,
        controller: T,
        dispatcher_builder: DispatcherBuilder<'a, 'b>,
        name: &str,
        dep: &[&str],
    ) -> Self
    where
        T: for<'c> BatchController<'a, 'b, 'c> + Send + 'a,
        'b: 'a,
    {
        self.add_batch::<T>(controller, dispatcher_builder, name, dep);

        self
    }

    /// The `Batch` is a `System` which contains a `Dispatcher`.
    /// By wrapping a `Dispatcher` inside a system, we can control the execution
    /// of a whole group of system, without sacrificing parallelism or
    /// conciseness.
    ///
    /// This function accepts the `DispatcherBuilder` as parameter, and the type
    /// of the `System` that will drive the execution of the internal
    /// dispatcher.
    ///
    /// Note that depending on the dependencies of the SubSystems the Batch
    /// can run in parallel with other Systems.
    /// In addition the Sub Systems can run in parallel within the Batch.
    ///
    /// The `Dispatcher` created for this `Batch` is completelly separate,
    /// from the parent `Dispatcher`.
    /// This mean that the dependencies, the `System` names, etc.. specified on
    /// the `Batch` `Dispatcher` are not visible on the parent, and is not
    /// allowed to specify cross dependencies.
    pub fn add_batch<T>(
        &mut self,
        controller: T,
        mut dispatcher_builder: DispatcherBuilder<'a, 'b>,
        name: &str,
        dep: &[&str],
    ) where
        T: for<'c> BatchController<'a, 'b, 'c> + Send + 'a,
        'b: 'a,
    {
        #[cfg(feature = "parallel")]
        {
            dispatcher_builder.thread_pool = self.thread_pool.clone();
        }

        let mut reads = dispatcher_builder.stages_builder.fetch_all_reads();
        reads.extend(<T::BatchSystemData as SystemData>::reads());
        reads.sort();
        reads.dedup();

        let mut writes = dispatcher_builder.stages_builder.fetch_all_writes();
        writes.extend(<T::BatchSystemData as SystemData>::writes());
        writes.sort();
        writes.dedup();

        let accessor = BatchAccessor::new(reads, writes);
        let dispatcher: Dispatcher<'a, 'b> = dispatcher_builder.build();

        let batch_system =
            unsafe { BatchControllerSystem::<'a, 'b, T>::create(accessor, controller, dispatcher) };

        self.add(batch_system, name, dep);
    }

    /// Adds a new thread local system.
    ///
    /// Please only use this if your struct is not `Send` and `Sync`.
    ///
    /// Thread-local systems are dispatched in-order.
    ///
    /// Same as [DispatcherBuilder::add_thread_local], but returns `self` to
    /// enable method chaining.
    pub fn with_thread_local<T>(mut self, system: T) -> Self
    where
        T: for<'c> RunNow<'c> + 'b,
    {
        self.add_thread_local(system);

        self
    }

    /// Adds a new thread local system.
    ///
    /// Please only use this if your struct is not `Send` and `Sync`.
    ///
    /// Thread-local systems are dispatched in-order.
    pub fn add_thread_local<T>(&mut self, system: T)
    where
        T: for<'c> RunNow<'c> + 'b,
    {
        self.thread_local.push(Box::new(system));
    }

    /// Inserts a barrier which assures that all systems
    /// added before the barrier are executed before the ones
    /// after this barrier.
    ///
    /// Does nothing if there were no systems added
    /// since the last call to `add_barrier()`/`with_barrier()`.
    ///
    /// Thread-local systems are not affected by barriers;
    /// they're always executed at the end.
    ///
    /// Same as [DispatcherBuilder::add_barrier], but returns `self` to enable
    /// method chaining.
    pub fn with_barrier(mut self) -> Self {
        self.add_barrier();

        self
    }

    /// Inserts a barrier which assures that all systems
    /// added before the barrier are executed before the ones
    /// after this barrier.
    ///
    /// Does nothing if there were no systems added
    /// since the last call to `add_barrier()`/`with_barrier()`.
    ///
    /// Thread-local systems are not affected by barriers;
    /// they're always executed at the end.
    pub fn add_barrier(&mut self) {
        self.stages_builder.add_barrier();
    }

    /// Attach a rayon thread pool to the builder
    /// and use that instead of creating one.
    ///
    /// Same as
    /// [`add_pool()`](struct.DispatcherBuilder.html#method.add_pool),
    /// but returns `self` to enable method chaining.
    #[cfg(feature = "parallel")]
    pub fn with_pool(mut self, pool: ::std::sync::Arc<::rayon::ThreadPool>) -> Self {
        self.add_pool(pool);

        self
    }

    /// Attach a rayon thread pool to the builder
    /// and use that instead of creating one.
    #[cfg(feature = "parallel")]
    pub fn add_pool(&mut self, pool: ::std::sync::Arc<::rayon::ThreadPool>) {
        *self.thread_pool.write().unwrap() = Some(pool);
    }

    /// Prints the equivalent system graph
    /// that can be easily used to get the graph using the `seq!` and `par!`
    /// macros. This is only recommended for advanced users.
    pub fn print_par_seq(&self) {
        println!("{:#?}", self);
    }

    /// Builds the `Dispatcher`.
    ///
    /// In the future, this method will
    /// precompute useful information in
    /// order to speed up dispatching.
    pub fn build(self) -> Dispatcher<'a, 'b> {
        use crate::dispatch::dispatcher::new_dispatcher;

        #[cfg(feature = "parallel")]
        self.thread_pool
            .write()
            .unwrap()
            .get_or_insert_with(Self::create_thread_pool);

        #[cfg(feature = "parallel")]
        let d = new_dispatcher(
            self.stages_builder.build(),
            self.thread_local,
            self.thread_pool,
        );

        #[cfg(not(feature = "parallel"))]
        let d = new_dispatcher(self.stages_builder.build(), self.thread_local);

        d
    }

    fn next_id(&mut self) -> SystemId {
        let id = self.current_id;
        self.current_id += 1;

        SystemId(id)
    }

    #[cfg(feature = "parallel")]
    fn create_thread_pool() -> ::std::sync::Arc<::rayon::ThreadPool> {
        use rayon::ThreadPoolBuilder;
        use std::sync::Arc;

        Arc::new(
            ThreadPoolBuilder::new()
                .build()
                .expect("Invalid configuration"),
        )
    }
}

#[cfg(feature = "parallel")]
impl<'b> DispatcherBuilder<'static, 'b> {
    /// Builds an async dispatcher.
    ///
    /// It does not allow non-static types and accepts a `World` struct or a
    /// value that can be borrowed as `World`.
    pub fn build_async<R>(
        self,
        world: R,
    ) -> crate::dispatch::async_dispatcher::AsyncDispatcher<'b, R> {
        use crate::dispatch::async_dispatcher::new_async;

        self.thread_pool
            .write()
            .unwrap()
            .get_or_insert_with(Self::create_thread_pool);

        new_async(
            world,
            self.stages_builder.build(),
            self.thread_local,
            self.thread_pool,
        )
    }
}

#[cfg(feature = "verif-hooks")]
#[allow(missing_docs)]
impl<'a, 'b> DispatcherBuilder<'a, 'b> {
    pub fn verif_stages_builder(&self) -> &StagesBuilder<'a> {
        &self.stages_builder
    }

    pub fn verif_stages_builder_mut(&mut self) -> &mut StagesBuilder<'a> {
        &mut self.stages_builder
    }

    pub fn verif_thread_local_len(&self) -> usize {
        self.thread_local.len()
    }

    pub fn verif_current_id(&self) -> usize {
        self.current_id
    }
}

impl fmt::Debug for DispatcherBuilder<'_, '_> {
    fn fmt(&self, f: &mut fmt::Formatter) -> fmt::Result {
        self.stages_builder.write_par_seq(f, &self.map)
    }
}
