use std::{
    borrow::Borrow,
    sync::{Arc, RwLock, mpsc},
};

use crate::{
    dispatch::{
        dispatcher::{ThreadLocal, ThreadPoolWrapper},
        stage::Stage,
    },
    world::World,
};
use std::borrow::BorrowMut;

pub fn new_async<'a, R>(
    world: R,
    stages: Vec<Stage<'static>>,
    thread_local: ThreadLocal<'a>,
    thread_pool: Arc<RwLock<ThreadPoolWrapper>>,
) -> AsyncDispatcher<'a, R> {
    AsyncDispatcher {
        data: Data::Inner(Inner { world, stages }),
        thread_local,
        thread_pool,
    }
}

/// Like, `Dispatcher` but works asynchronously.
pub struct AsyncDispatcher<'a, R> {
    data: Data<R>,
    thread_local: ThreadLocal<'a>,
    thread_pool: Arc<RwLock<ThreadPoolWrapper>>,
}

impl<R> AsyncDispatcher<'_, R>
where
    R: Borrow<World> + Send + Sync + 'static,
{
    /// Sets up all the systems which means they are gonna add default values
    /// for the resources they need.
    pub fn setup(&mut self)
    where
        R: BorrowMut<World>,
    {
        let inner = self.data.inner();
        let stages = &mut inner.stages;
        let world = inner.world.borrow_mut();

        for stage in stages {
            stage.setup(world);
        }

        for sys in &mut self.thread_local {
            sys.setup(world);
        }
    }

    /// Dispatches the systems asynchronously.
    /// Does not execute thread local systems.
    ///
    /// If you want to wait for the systems to finish,
    /// call `wait()`.
    pub fn dispatch(&mut self) {
        let (snd, mut inner) = self.data.sender();

        self.thread_pool
            .read()
            .unwrap()
            .as_ref()
            .unwrap()
            .spawn(move || {
                let world: &World = inner.world.borrow();

                for stage in &mut inner.stages {
                    stage.execute(world);
                }

                let _ = snd.send(inner);
            });
    }

    /// Waits for all the asynchronously dispatched systems to finish
    /// and executes thread local systems (if there are any).
    pub fn wait(&mut self) {
        let world = self.data.inner().world.borrow();

        for sys in &mut self.thread_local {
            sys.run_now(world);
        }
    }

    /// Waits for all the asynchronously dispatched systems to finish
    /// without executing thread local systems.
    ///
    /// See `wait` for executing thread local systems.
    pub fn wait_without_tl(&mut self) {
        self.data.inner();
    }

    /// Checks if any of the asynchronously dispatched systems are running.
    pub fn running(&mut self) -> bool {
        self.data.inner_noblock().is_none()
    }

    /// Returns the `World`.
    ///
    /// This will wait for the asynchronous systems to finish.
    ///
    /// Renamed to `self.world()`.
    #[deprecated(since = "0.8.0", note = "renamed to `world`")]
    pub fn res(&mut self) -> &R {
        self.world()
    }

    /// Returns the `World`.
    ///
    /// This will wait for the asynchronous systems to finish.
    pub fn world(&mut self) -> &R {
        &self.data.inner().world
    }

    /// Borrows the `World` mutably.
    ///
    /// This will wait for the asynchronous systems to finish.
    ///
    /// Renamed to `self.world_mut()`.
    #[deprecated(since = "0.8.0", note = "renamed to `world_mut`")]
    pub fn mut_res(&mut self) -> &mut R {
        &mut self.data.inner().world
    }

    /// Borrows the `World` mutably.
    ///
    /// This will wait for the asynchronous systems to finish.
    pub fn world_mut(&mut self) -> &mut R {
        &mut self.data.inner().world
    }
}

enum Data<R> {
    Inner(Inner<R>),
    Rx(mpsc::Receiver<Inner<R>>),
}

impl<R> Data<R> {
    fn inner(&mut self) -> &mut Inner<R> {
        *self = match self {
            Data::Inner(inner) => return inner,
            Data::Rx(rx) => Data::Inner(rx.recv().expect("Sender dropped")),
        };

        self.inner()
    }

    fn inner_noblock(&mut self) -> Option<&mut Inner<R>> {
        use std::sync::mpsc::TryRecvError;

        let new_self;

        match *self {
            Data::Inner(ref mut inner) => return Some(inner),
            Data::Rx(ref mut rx) => {
                let inner = rx
                    .try_recv()
                    .map(Some)
                    .or_else(|e| match e {
                        TryRecvError::Empty => Ok(None),
                        TryRecvError::Disconnected => Err(e),
                    })
                    .expect("Sender dropped");
                match inner {
                    Some(inner) => new_self = Data::Inner(inner),
                    None => return None,
                }
            }
        }

        *self = new_self;

        self.inner_noblock()
    }

    fn sender(&mut self) -> (mpsc::Sender<Inner<R>>, Inner<R>) {
        use std::mem::replace;

        self.inner();

        let (snd, rx) = mpsc::channel();
        let inner = replace(&mut *self, Data::Rx(rx));
        let inner = match inner {
            Data::Inner(inner) => inner,
            Data::Rx(_) => unreachable!(),
        };

        (snd, inner)
    }
}

struct Inner<R> {
    stages: Vec<Stage<'static>>,
    world: R,
}
