//! Stages module. To explain the rough functionality, here some information in
//! words:
//!
//! 1) A *stage* is a part of the dispatching which contains work that can be
//!    done in parallel
//!
//! 2) In each stage, there's a *group*. A group is a list of systems, which are
//!    executed in order. Thus, systems of a group may conflict with each other,
//!    but groups of a stage may not.
//!
//! So the actual dispatching works like this (pseudo code):
//!
//! ```rust,ignore
//! for stage in stages {
//!     stage.for_each_group(|group| for system in group {
//!         system.run(world);
//!     });
//! }
//! ```
//!
//! As you can see, we execute stages sequentially, fork the stage to execute
//! multiple groups at once, but execute the systems of each group sequentially
//! again. Here's why:
//!
//! Imagine we have like a really heavy system, like a collision detection.
//! And we also have a really light system. Now, given both systems don't have
//! any conflicts, thus can run in parallel, all the other systems had to wait
//! until the collision detection finished. That's not what we want. Instead, we
//! say:
//!
//! > If a system only conflicts with one group of a stage, it gets executed
//! > after all the other systems of this group, but only if by doing this, the
//! > running times of the groups of this stage get closer to each other (called
//! > balanced in code).

use std::fmt;

use ahash::AHashMap as HashMap;
use arrayvec::ArrayVec;
use smallvec::SmallVec;

use crate::{
    dispatch::{
        dispatcher::{SystemExecSend, SystemId},
        util::check_intersection,
    },
    system::{RunningTime, System},
    world::{ResourceId, World},
};

const MAX_SYSTEMS_PER_GROUP: usize = 5;

#[derive(Clone, Copy, Debug, Eq, PartialEq)]
enum Conflict {
    None,
    Single(usize),
    Multiple,
}

impl Conflict {
    fn add(conflict: Self, group: usize) -> Self {
        match conflict {
            Conflict::None => Conflict::Single(group),
            Conflict::Single(_) => Conflict::Multiple,
            Conflict::Multiple => Conflict::Multiple,
        }
    }
}

type GroupVec<T> = SmallVec<[T; 6]>;

#[derive(Debug)]
enum InsertionTarget {
    Stage(usize),
    Group(usize, usize),
    NewStage,
}

#[derive(Default)]
pub struct Stage<'a> {
    groups: GroupVec<ArrayVec<SystemExecSend<'a>, MAX_SYSTEMS_PER_GROUP>>,
}

impl Stage<'_> {
    fn new() -> Self {
        Default::default()
    }

    pub fn setup(&mut self, world: &mut World) {
        for group in &mut self.groups {
            for sys in group {
                sys.setup(world);
            }
        }
    }

    pub fn dispose(self, world: &mut World) {
        for group in self.groups {
            for sys in group {
                sys.dispose(world);
            }
        }
    }

    #[cfg(feature = "parallel")]
    pub fn execute(&mut self, world: &World) {
        use rayon::prelude::*;

        self.groups.par_iter_mut().for_each(|group| {
            for system in group {
                system.run_now(world);
            }
        });
    }

    /// This function returns the maximum amount of threads this stage
    /// will ever use.
    #[cfg(feature = "parallel")]
    pub fn max_threads(&self) -> usize {
        self.groups.len()
    }

    pub fn execute_seq(&mut self, world: &World) {
        for group in &mut self.groups {
            for system in group {
                system.run_now(world);
            }
        }
    }
}

#[derive(Default)]
pub struct StagesBuilder<'a> {
    barrier: usize,
    ids: Vec<GroupVec<ArrayVec<SystemId, MAX_SYSTEMS_PER_GROUP>>>,
    reads: Vec<GroupVec<SmallVec<[ResourceId; 12]>>>,
    running_time: Vec<GroupVec<u8>>,
    stages: Vec<Stage<'a>>,
    writes: Vec<GroupVec<SmallVec<[ResourceId; 10]>>>,
}

impl<'a> StagesBuilder<'a> {
    pub fn fetch_all_reads(&self) -> Vec<ResourceId> {
        let mut v = self
            .reads
            .iter()
            .flatten()
            .flatten()
            .cloned()
            .collect::<Vec<_>>();

        v.sort();
        v.dedup();
        v
    }

    pub fn fetch_all_writes(&self) -> Vec<ResourceId> {
        let mut v = self
            .writes
            .iter()
            .flatten()
            .flatten()
            .cloned()
            .collect::<Vec<_>>();

        v.sort();
        v.dedup();
        v
    }

    pub fn add_barrier(&mut self) {
        self.barrier = self.stages.len();
    }

    pub fn insert<T>(&mut self, mut dep: SmallVec<[SystemId; 4]>, id: SystemId, system: T)
    where
        T: for<'b> System<'b> + Send + 'a,
    {
        use crate::system::Accessor;

        let mut reads = system.accessor().reads();
        let writes = system.accessor().writes();

        reads.sort();
        reads.dedup();

        let new_time = system.running_time();

        let target = self.insertion_target(&reads, &writes, &mut dep, new_time);

        let (stage, group) = match target {
            InsertionTarget::Stage(stage) => {
                let group = self.ids[stage].len();
                self.add_group(stage);

                (stage, group)
            }
            InsertionTarget::Group(stage, group) => (stage, group),
            InsertionTarget::NewStage => {
                let stage = self.stages.len();

                self.add_stage();
                self.add_group(stage);

                (stage, 0)
            }
        };

        self.ids[stage][group].push(id);
        self.reads[stage][group].extend(reads);
        self.running_time[stage][group] += new_time as u8;
        self.stages[stage].groups[group].push(Box::new(system));
        self.writes[stage][group].extend(writes);
    }

    pub fn build(self) -> Vec<Stage<'a>> {
        self.stages
    }

    pub fn write_par_seq(
        &self,
        f: &mut fmt::Formatter,
        map: &HashMap<String, SystemId>,
    ) -> fmt::Result {
        let map: HashMap<_, _> = map
            .iter()
            .map(|(key, value)| (*value, key as &str))
            .collect();

        writeln!(f, "seq![")?;
        for stage in &self.ids {
            writeln!(f, "\tpar![")?;
            for group in stage {
                writeln!(f, "\t\tseq![")?;
                for system in group {
                    let system: &SystemId = system;

                    // Systems registered with the empty name have no entry in
                    // the name map; print a placeholder for them.
                    let name = match map.get(system) {
                        Some(name) => name.replace([' ', '-', '/'], "_"),
                        None => format!("unnamed_{}", system.0),
                    };

                    writeln!(f, "\t\t\t{},", name)?;
                }
                writeln!(f, "\t\t],")?;
            }
            writeln!(f, "\t],")?;
        }
        writeln!(f, "]")
    }

    fn add_stage(&mut self) {
        self.ids.push(GroupVec::new());
        self.reads.push(GroupVec::new());
        self.running_time.push(GroupVec::new());
        self.stages.push(Stage::new());
        self.writes.push(GroupVec::new());
    }

    fn add_group(&mut self, stage: usize) {
        self.ids[stage].push(ArrayVec::new());
        self.reads[stage].push(SmallVec::new());
        self.running_time[stage].push(0);
        self.stages[stage].groups.push(ArrayVec::new());
        self.writes[stage].push(SmallVec::new());
    }

    fn insertion_target<'rw, R, W>(
        &self,
        new_reads: R,
        new_writes: W,
        new_dep: &mut SmallVec<[SystemId; 4]>,
        new_time: RunningTime,
    ) -> InsertionTarget
    where
        R: IntoIterator<Item = &'rw ResourceId>,
        R::IntoIter: Clone,
        W: IntoIterator<Item = &'rw ResourceId>,
        W::IntoIter: Clone,
    {
        let new_reads = new_reads.into_iter();
        let new_writes = new_writes.into_iter();

        // Dependencies in front of the barrier are already satisfied by the
        // barrier itself; they must not keep later stages from being used.
        for stage in 0..self.barrier {
            self.remove_ids(stage, new_dep);
        }

        (self.barrier..self.stages.len())
            .map(|stage| {
                let conflict = Self::find_conflict(
                    &self.ids,
                    &self.reads,
                    &self.writes,
                    stage,
                    new_reads.clone(),
                    new_writes.clone(),
                    new_dep,
                );
                self.remove_ids(stage, new_dep);
                (stage, conflict)
            })
            .find(|&(stage, conflict)| match conflict {
                Conflict::None => true,
                Conflict::Single(group) => {
                    self.stages[stage].groups[group].len() < MAX_SYSTEMS_PER_GROUP - 1
                        && self.improves_balance(stage, group, new_time as u8)
                }
                Conflict::Multiple => false,
            })
            .map(|(stage, conflict)| match conflict {
                Conflict::None => InsertionTarget::Stage(stage),
                Conflict::Single(group) => InsertionTarget::Group(stage, group),
                Conflict::Multiple => unreachable!(),
            })
            .unwrap_or(InsertionTarget::NewStage)
    }

    fn improves_balance(&self, stage: usize, group: usize, new_time: u8) -> bool {
        let max = *self.running_time[stage].iter().max().unwrap() as i8;
        let old_time = self.running_time[stage][group];
        let new_time = (old_time + new_time) as i8;

        // Check if adding the system to the group would
        // balance the stage better.

        (max - new_time).abs() < (max - old_time as i8).abs()
    }

    /// Returns an enum indicating which kind of conflict a system has
    /// with a stage.
    fn find_conflict<'rw, R, W>(
        ids: &[GroupVec<ArrayVec<SystemId, MAX_SYSTEMS_PER_GROUP>>],
        reads: &[GroupVec<SmallVec<[ResourceId; 12]>>],
        writes: &[GroupVec<SmallVec<[ResourceId; 10]>>],
        stage: usize,
        new_reads: R,
        new_writes: W,
        new_dep: &SmallVec<[SystemId; 4]>,
    ) -> Conflict
    where
        R: IntoIterator<Item = &'rw ResourceId>,
        R::IntoIter: Clone,
        W: IntoIterator<Item = &'rw ResourceId>,
        W::IntoIter: Clone,
    {
        let new_reads = new_reads.into_iter();
        let new_writes = new_writes.into_iter();

        let num_groups = ids[stage].len();
        let mut dep_conflict = false;

        let conflict = (0..num_groups)
            .filter(|&group| {
                let reads_and_writes = writes[stage][group]
                    .iter()
                    .chain(reads[stage][group].iter());

                let inters = check_intersection(new_writes.clone(), reads_and_writes)
                    || check_intersection(new_reads.clone(), writes[stage][group].iter());

                if inters {
                    true
                } else if check_intersection(new_dep.iter(), ids[stage][group].iter()) {
                    dep_conflict = true;

                    true
                } else {
                    false
                }
            })
            .fold(Conflict::None, Conflict::add);

        // If there is a dependency in the dependency list
        // which was not in a previous or this stage,
        // return `Multiple` conflict.

        if (dep_conflict && new_dep.len() > 1) || (!dep_conflict && !new_dep.is_empty()) {
            Conflict::Multiple
        } else {
            conflict
        }
    }

    /// Removes the ids of a given stage from the passed dependency list.
    fn remove_ids(&self, stage: usize, new_dep: &mut SmallVec<[SystemId; 4]>) {
        if !new_dep.is_empty() {
            for id in self.ids[stage].iter().flatten() {
                // A dependency may be listed more than once; remove every occurrence.
                while let Some(index) = new_dep.iter().position(|x| *x == *id) {
                    new_dep.remove(index);
                }
            }
        }
    }
}

#[cfg(feature = "verif-hooks")]
#[allow(missing_docs)]
#[derive(Clone, Copy, Debug, Eq, PartialEq)]
pub enum VerifTarget {
    Stage(usize),
    Group(usize, usize),
    NewStage,
}

#[cfg(feature = "verif-hooks")]
#[allow(missing_docs)]
#[derive(Clone, Copy, Debug, Eq, PartialEq)]
pub enum VerifConflict {
    None,
    Single(usize),
    Multiple,
}

/// Verification hooks: direct construction / inspection of the executed layout.
#[cfg(feature = "verif-hooks")]
#[allow(missing_docs)]
impl<'a> Stage<'a> {
    pub fn verif_new() -> Self {
        Stage::new()
    }

    pub fn verif_push_group(&mut self) {
        self.groups.push(ArrayVec::new());
    }

    pub fn verif_push(&mut self, group: usize, sys: SystemExecSend<'a>) {
        self.groups[group].push(sys);
    }

    pub fn verif_num_groups(&self) -> usize {
        self.groups.len()
    }

    pub fn verif_group_len(&self, group: usize) -> usize {
        self.groups[group].len()
    }
}

/// Verification hooks: construction of an arbitrary table state, read-only
/// accessors to the five tables and thin forwards to the private planner
/// functions (a change of the real function is seen through the forward).
#[cfg(feature = "verif-hooks")]
#[allow(missing_docs)]
impl<'a> StagesBuilder<'a> {
    pub fn verif_with_capacity(n: usize) -> Self {
        StagesBuilder {
            barrier: 0,
            ids: Vec::with_capacity(n),
            reads: Vec::with_capacity(n),
            running_time: Vec::with_capacity(n),
            stages: Vec::with_capacity(n),
            writes: Vec::with_capacity(n),
        }
    }

    pub fn verif_add_stage(&mut self) {
        self.add_stage();
    }

    pub fn verif_add_group(&mut self, stage: usize) {
        self.add_group(stage);
    }

    /// Puts one (id, boxed system) pair into a slot, without touching the
    /// access tables.
    pub fn verif_push_slot(&mut self, stage: usize, group: usize, id: SystemId, sys: SystemExecSend<'a>) {
        self.ids[stage][group].push(id);
        self.stages[stage].groups[group].push(sys);
    }

    pub fn verif_push_id(&mut self, stage: usize, group: usize, id: SystemId) {
        self.ids[stage][group].push(id);
    }

    pub fn verif_push_read(&mut self, stage: usize, group: usize, r: ResourceId) {
        self.reads[stage][group].push(r);
    }

    pub fn verif_push_write(&mut self, stage: usize, group: usize, w: ResourceId) {
        self.writes[stage][group].push(w);
    }

    pub fn verif_set_time(&mut self, stage: usize, group: usize, t: u8) {
        self.running_time[stage][group] = t;
    }

    pub fn verif_set_barrier(&mut self, barrier: usize) {
        self.barrier = barrier;
    }

    pub fn verif_barrier(&self) -> usize {
        self.barrier
    }

    /// Lengths of the five parallel tables (ids, reads, running_time, stages, writes).
    pub fn verif_table_lens(&self) -> [usize; 5] {
        [
            self.ids.len(),
            self.reads.len(),
            self.running_time.len(),
            self.stages.len(),
            self.writes.len(),
        ]
    }

    /// Number of groups of `stage` in each of the five tables.
    pub fn verif_stage_lens(&self, stage: usize) -> [usize; 5] {
        [
            self.ids[stage].len(),
            self.reads[stage].len(),
            self.running_time[stage].len(),
            self.stages[stage].groups.len(),
            self.writes[stage].len(),
        ]
    }

    pub fn verif_ids(&self, stage: usize, group: usize) -> &[SystemId] {
        &self.ids[stage][group]
    }

    pub fn verif_reads(&self, stage: usize, group: usize) -> &[ResourceId] {
        &self.reads[stage][group]
    }

    pub fn verif_writes(&self, stage: usize, group: usize) -> &[ResourceId] {
        &self.writes[stage][group]
    }

    pub fn verif_time(&self, stage: usize, group: usize) -> u8 {
        self.running_time[stage][group]
    }

    /// Number of boxed systems really stored in the executed list at the slot.
    pub fn verif_exec_len(&self, stage: usize, group: usize) -> usize {
        self.stages[stage].groups[group].len()
    }

    pub fn verif_insertion_target(
        &self,
        reads: &[ResourceId],
        writes: &[ResourceId],
        dep: &mut SmallVec<[SystemId; 4]>,
        time: RunningTime,
    ) -> VerifTarget {
        match self.insertion_target(reads, writes, dep, time) {
            InsertionTarget::Stage(s) => VerifTarget::Stage(s),
            InsertionTarget::Group(s, g) => VerifTarget::Group(s, g),
            InsertionTarget::NewStage => VerifTarget::NewStage,
        }
    }

    pub fn verif_find_conflict(
        &self,
        stage: usize,
        reads: &[ResourceId],
        writes: &[ResourceId],
        dep: &SmallVec<[SystemId; 4]>,
    ) -> VerifConflict {
        match Self::find_conflict(&self.ids, &self.reads, &self.writes, stage, reads, writes, dep) {
            Conflict::None => VerifConflict::None,
            Conflict::Single(g) => VerifConflict::Single(g),
            Conflict::Multiple => VerifConflict::Multiple,
        }
    }

    pub fn verif_improves_balance(&self, stage: usize, group: usize, new_time: u8) -> bool {
        self.improves_balance(stage, group, new_time)
    }

    pub fn verif_remove_ids(&self, stage: usize, dep: &mut SmallVec<[SystemId; 4]>) {
        self.remove_ids(stage, dep)
    }
}

#[cfg(test)]
mod tests {
    use super::*;

    fn create_ids(ids: &[&[&[usize]]]) -> Vec<GroupVec<ArrayVec<SystemId, MAX_SYSTEMS_PER_GROUP>>> {
        ids.iter()
            .map(|groups| {
                groups
                    .iter()
                    .map(|systems| systems.iter().map(|id| SystemId(*id)).collect())
                    .collect()
            })
            .collect()
    }

    fn create_reads(reads: &[&[&[ResourceId]]]) -> Vec<GroupVec<SmallVec<[ResourceId; 12]>>> {
        reads
            .iter()
            .map(|groups| {
                groups
                    .iter()
                    .map(|reads| reads.iter().cloned().collect())
                    .collect()
            })
            .collect()
    }

    fn create_writes(writes: &[&[&[ResourceId]]]) -> Vec<GroupVec<SmallVec<[ResourceId; 10]>>> {
        writes
            .iter()
            .map(|groups| {
                groups
                    .iter()
                    .map(|writes| writes.iter().cloned().collect())
                    .collect()
            })
            .collect()
    }

    #[derive(Default)]
    struct ResA;
    #[derive(Default)]
    struct ResB;
    #[derive(Default)]
    struct ResC;

    #[test]
    fn check_intersection_basic() {
        assert!(check_intersection([1, 5].iter(), [2, 5].iter()));
    }

    #[test]
    fn conflict_add() {
        assert_eq!(Conflict::add(Conflict::None, 45), Conflict::Single(45));
        assert_eq!(Conflict::add(Conflict::Single(3), 5), Conflict::Multiple);
    }

    #[test]
    fn conflict_rw() {
        let ids = create_ids(&[&[&[0], &[1]]]);
        let reads = create_reads(&[&[&[ResourceId::new::<ResA>()], &[ResourceId::new::<ResB>()]]]);
        let writes = create_writes(&[&[&[], &[]]]);

        let conflict = StagesBuilder::find_conflict(
            &ids,
            &reads,
            &writes,
            0,
            &[],
            &[ResourceId::new::<ResB>()],
            &SmallVec::new(),
        );
        assert_eq!(conflict, Conflict::Single(1));
    }

    #[test]
    fn conflict_ww() {
        let ids = create_ids(&[&[&[0]]]);
        let reads = create_reads(&[&[&[ResourceId::new::<ResA>()]]]);
        let writes = create_writes(&[&[&[ResourceId::new::<ResB>()]]]);

        let conflict = StagesBuilder::find_conflict(
            &ids,
            &reads,
            &writes,
            0,
            &[],
            &[ResourceId::new::<ResB>()],
            &SmallVec::new(),
        );
        assert_eq!(conflict, Conflict::Single(0));
    }

    #[test]
    fn conflict_ww_multi() {
        let ids = create_ids(&[&[&[0], &[1]]]);
        let reads =
            create_reads(&[&[&[ResourceId::new::<ResA>(), ResourceId::new::<ResC>()], &[]]]);
        let writes = create_writes(&[&[&[], &[ResourceId::new::<ResB>()]]]);

        let conflict = StagesBuilder::find_conflict(
            &ids,
            &reads,
            &writes,
            0,
            &[],
            &[ResourceId::new::<ResB>(), ResourceId::new::<ResC>()],
            &SmallVec::new(),
        );
        assert_eq!(conflict, Conflict::Multiple);
    }

    #[test]
    fn uses_group() {
        use crate::{Read, Write};

        struct SysA;

        impl<'a> System<'a> for SysA {
            type SystemData = Read<'a, ResA>;

            fn run(&mut self, _: Self::SystemData) {}
        }

        struct SysB;

        impl<'a> System<'a> for SysB {
            type SystemData = Write<'a, ResB>;

            fn run(&mut self, _: Self::SystemData) {}

            fn running_time(&self) -> RunningTime {
                RunningTime::VeryShort
            }
        }

        struct SysC;

        impl<'a> System<'a> for SysC {
            type SystemData = Read<'a, ResB>;

            fn run(&mut self, _: Self::SystemData) {}

            fn running_time(&self) -> RunningTime {
                RunningTime::Short
            }
        }

        // SysA needs average time, SysB very short and SysC short.
        // To balance the stage SysA and SysB are in, we execute SysC
        // *after* SysB, so in the same group.

        let mut builder: StagesBuilder = Default::default();

        builder.insert(SmallVec::new(), SystemId(0), SysA);
        builder.insert(SmallVec::new(), SystemId(1), SysB);
        builder.insert(SmallVec::new(), SystemId(2), SysC);

        let ids = &builder.ids[0];

        assert_eq!(ids[0][0], SystemId(0));
        assert_eq!(ids[1][0], SystemId(1));
        assert_eq!(ids[1][1], SystemId(2));
    }

    #[test]
    fn test_chained_dependency() {
        let mut builder: StagesBuilder = Default::default();

        struct Sys;

        impl System<'_> for Sys {
            type SystemData = ();

            fn run(&mut self, _: Self::SystemData) {}
        }

        builder.insert(SmallVec::from(&[][..]), SystemId(0), Sys);
        builder.insert(SmallVec::from(&[SystemId(0)][..]), SystemId(1), Sys);
        builder.insert(SmallVec::from(&[SystemId(1)][..]), SystemId(2), Sys);

        assert_eq!(builder.ids[0][0][0], SystemId(0));
        assert_eq!(builder.ids[1][0][0], SystemId(1));
        assert_eq!(builder.ids[2][0][0], SystemId(2));
    }
}
