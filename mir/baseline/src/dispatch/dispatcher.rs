use smallvec::SmallVec;

use crate::{
    dispatch::{SendDispatcher, stage::Stage},
    system::RunNow,
    world::World,
};

/// This wrapper is used to share a replaceable ThreadPool with other
/// dispatchers. Useful with batch dispatchers.
#[cfg(feature = "parallel")]
pub type ThreadPoolWrapper = Option<::std::sync::Arc<::rayon::ThreadPool>>;

/// The dispatcher struct, allowing
/// systems to be executed in parallel.
pub struct Dispatcher<'a, 'b> {
    inner: SendDispatcher<'a>,
    thread_local: ThreadLocal<'b>,
}

impl<'a> Dispatcher<'a, '_> {
    /// Sets up all the systems which means they are gonna add default values
    /// for the resources they need.
    pub fn setup(&mut self, world: &mut World) {
        self.inner.setup(world);

        for sys in &mut self.thread_local {
            sys.setup(world);
        }
    }

    /// Calls the `dispose` method of all systems and allows them to release
    /// external resources. It is common this method removes components and
    /// / or resources from the `World` which are associated with external
    /// resources.
    pub fn dispose(self, world: &mut World) {
        self.inner.dispose(world);

        for sys in self.thread_local {
            sys.dispose(world);
        }
    }

    /// Dispatch all the systems with given resources and context
    /// and then run thread local systems.
    ///
    /// This function automatically redirects to
    ///
    /// * [Dispatcher::dispatch_par] in case it is supported
    /// * [Dispatcher::dispatch_seq] otherwise
    ///
    /// and runs `dispatch_thread_local` afterwards.
    ///
    /// Please note that this method assumes that no resource
    /// is currently borrowed. If that's the case, it panics.
    pub fn dispatch(&mut self, world: &World) {
        self.inner.dispatch(world);
        self.dispatch_thread_local(world);
    }

    /// Dispatches the systems (except thread local systems)
    /// in parallel given the resources to operate on.
    ///
    /// This operation blocks the
    /// executing thread.
    ///
    /// Only available with "parallel" feature enabled.
    ///
    /// Please note that this method assumes that no resource
    /// is currently borrowed. If that's the case, it panics.
    #[cfg(feature = "parallel")]
    pub fn dispatch_par(&mut self, world: &World) {
        self.inner.dispatch_par(world);
    }

    /// Dispatches the systems (except thread local systems) sequentially.
    ///
    /// This is useful if parallel overhead is
    /// too big or the platform does not support multithreading.
    ///
    /// Please note that this method assumes that no resource
    /// is currently borrowed. If that's the case, it panics.
    pub fn dispatch_seq(&mut self, world: &World) {
        self.inner.dispatch_seq(world);
    }

    /// Dispatch only thread local systems sequentially.
    ///
    /// Please note that this method assumes that no resource
    /// is currently borrowed. If that's the case, it panics.
    pub fn dispatch_thread_local(&mut self, world: &World) {
        for sys in &mut self.thread_local {
            sys.run_now(world);
        }
    }

    /// Converts this to a [`SendDispatcher`].
    ///
    /// Fails and returns the original distpatcher if it contains thread local systems.
    pub fn try_into_sendable(self) -> Result<SendDispatcher<'a>, Self> {
        let Dispatcher {
            inner: _,
            thread_local,
        } = &self;

        if thread_local.is_empty() {
            Ok(self.inner)
        } else {
            Err(self)
        }
    }

    /// This method returns the largest amount of threads this dispatcher
    /// can make use of. This is mainly for debugging purposes so you can see
    /// how well your systems can make use of multi-threading.
    #[cfg(feature = "parallel")]
    pub fn max_threads(&self) -> usize {
        self.inner.max_threads()
    }
}

#[cfg(feature = "verif-hooks")]
#[allow(missing_docs)]
impl Dispatcher<'_, '_> {
    /// Executed layout (systems per group per stage) and number of
    /// thread-local systems.
    pub fn verif_layout(&self) -> (Vec<Vec<usize>>, usize) {
        (self.inner.verif_layout(), self.thread_local.len())
    }
}

impl RunNow<'_> for Dispatcher<'_, '_> {
    fn run_now(&mut self, world: &World) {
        self.dispatch(world);
    }

    fn setup(&mut self, world: &mut World) {
        self.setup(world);
    }

    fn dispose(self: Box<Self>, world: &mut World) {
        (*self).dispose(world);
    }
}

#[derive(Clone, Copy, Debug, Eq, Hash, Ord, PartialEq, PartialOrd)]
pub struct SystemId(pub usize);

pub type SystemExecSend<'b> = Box<dyn for<'a> RunNow<'a> + Send + 'b>;
pub type ThreadLocal<'a> = SmallVec<[Box<dyn for<'b> RunNow<'b> + 'a>; 4]>;

#[cfg(feature = "parallel")]
pub fn new_dispatcher<'a, 'b>(
    stages: Vec<Stage<'a>>,
    thread_local: ThreadLocal<'b>,
    thread_pool: ::std::sync::Arc<::std::sync::RwLock<ThreadPoolWrapper>>,
) -> Dispatcher<'a, 'b> {
    Dispatcher {
        inner: SendDispatcher {
            stages,
            thread_pool,
        },
        thread_local,
    }
}

#[cfg(not(feature = "parallel"))]
pub fn new_dispatcher<'a, 'b>(
    stages: Vec<Stage<'a>>,
    thread_local: ThreadLocal<'b>,
) -> Dispatcher<'a, 'b> {
    Dispatcher {
        inner: SendDispatcher { stages },
        thread_local,
    }
}

#[cfg(test)]
mod tests {
    use crate::{dispatch::builder::DispatcherBuilder, system::*, world::*};

    #[derive(Default)]
    struct Res(i32);

    struct Dummy(i32);

    impl<'a> System<'a> for Dummy {
        type SystemData = Write<'a, Res>;

        fn run(&mut self, mut data: Self::SystemData) {
            if self.0 == 4 {
                // In second stage

                assert_eq!(data.0, 6);
            } else if self.0 == 5 {
                // In second stage

                assert_eq!(data.0, 10);
            }

            data.0 += self.0;
        }
    }

    struct Panic;

    impl System<'_> for Panic {
        type SystemData = ();

        fn run(&mut self, _: Self::SystemData) {
            panic!("Propagated panic");
        }
    }

    fn new_builder() -> DispatcherBuilder<'static, 'static> {
        DispatcherBuilder::new()
            .with(Dummy(0), "0", &[])
            .with(Dummy(1), "1", &[])
            .with(Dummy(2), "2", &[])
            .with(Dummy(3), "3", &["1"])
            .with_barrier()
            .with(Dummy(4), "4", &[])
            .with(Dummy(5), "5", &["4"])
    }

    fn new_world() -> World {
        let mut world = World::empty();
        world.insert(Res(0));

        world
    }

    #[test]
    #[should_panic(expected = "Propagated panic")]
    fn dispatcher_panics() {
        DispatcherBuilder::new()
            .with(Panic, "p", &[])
            .build()
            .dispatch(&new_world())
    }

    #[test]
    fn stages() {
        let mut d = new_builder().build();

        d.dispatch(&new_world());
    }

    #[test]
    #[cfg(feature = "parallel")]
    fn stages_async() {
        let mut d = new_builder().build_async(new_world());

        d.dispatch();
    }
}
