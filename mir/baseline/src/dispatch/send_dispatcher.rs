#[cfg(feature = "parallel")]
use crate::dispatch::dispatcher::ThreadPoolWrapper;
use crate::{dispatch::stage::Stage, system::RunNow, world::World};

/// `Send`able version of [`Dispatcher`](crate::dispatch::Dispatcher).
///
/// Can't hold thread local systems.
///
/// Create using [`Dispatcher::try_into_sendable`](crate::dispatch::Dispatcher::try_into_sendable).
pub struct SendDispatcher<'a> {
    pub(super) stages: Vec<Stage<'a>>,
    #[cfg(feature = "parallel")]
    pub(super) thread_pool: ::std::sync::Arc<::std::sync::RwLock<ThreadPoolWrapper>>,
}

impl SendDispatcher<'_> {
    /// Sets up all the systems which means they are gonna add default values
    /// for the resources they need.
    pub fn setup(&mut self, world: &mut World) {
        for stage in &mut self.stages {
            stage.setup(world);
        }
    }

    /// Calls the `dispose` method of all systems and allows them to release
    /// external resources. It is common this method removes components and
    /// / or resources from the `World` which are associated with external
    /// resources.
    pub fn dispose(self, world: &mut World) {
        for stage in self.stages {
            stage.dispose(world);
        }
    }

    /// Dispatch all the systems with given resources and context
    /// and then run thread local systems.
    ///
    /// This function automatically redirects to
    ///
    /// * [SendDispatcher::dispatch_par] in case it is supported
    /// * [SendDispatcher::dispatch_seq] otherwise
    ///
    /// and runs `dispatch_thread_local` afterwards.
    ///
    /// Please note that this method assumes that no resource
    /// is currently borrowed. If that's the case, it panics.
    pub fn dispatch(&mut self, world: &World) {
        #[cfg(feature = "parallel")]
        self.dispatch_par(world);

        #[cfg(not(feature = "parallel"))]
        self.dispatch_seq(world);
    }

    /// Dispatches the systems (except thread local systems)
    /// in parallel given the resources to operate on.
    ///
    /// This operation blocks the
    /// executing thread.
    ///
    /// Only available with "parallel" feature enabled.
    ///
    /// Please note that this method assumes that no resource
    /// is currently borrowed. If that's the case, it panics.
    #[cfg(feature = "parallel")]
    pub fn dispatch_par(&mut self, world: &World) {
        let stages = &mut self.stages;

        self.thread_pool
            .read()
            .unwrap()
            .as_ref()
            .unwrap()
            .install(move || {
                for stage in stages {
                    stage.execute(world);
                }
            });
    }

    /// Dispatches the systems (except thread local systems) sequentially.
    ///
    /// This is useful if parallel overhead is
    /// too big or the platform does not support multithreading.
    ///
    /// Please note that this method assumes that no resource
    /// is currently borrowed. If that's the case, it panics.
    pub fn dispatch_seq(&mut self, world: &World) {
        for stage in &mut self.stages {
            stage.execute_seq(world);
        }
    }

    /// This method returns the largest amount of threads this dispatcher
    /// can make use of. This is mainly for debugging purposes so you can see
    /// how well your systems can make use of multi-threading.
    #[cfg(feature = "parallel")]
    pub fn max_threads(&self) -> usize {
        self.stages
            .iter()
            .map(Stage::max_threads)
            .max()
            .unwrap_or(0)
    }
}

#[cfg(feature = "verif-hooks")]
#[allow(missing_docs)]
impl SendDispatcher<'_> {
    /// Number of boxed systems in every group of every stage of the layout
    /// that is really executed.
    pub fn verif_layout(&self) -> Vec<Vec<usize>> {
        self.stages
            .iter()
            .map(|s| (0..s.verif_num_groups()).map(|g| s.verif_group_len(g)).collect())
            .collect()
    }
}

impl RunNow<'_> for SendDispatcher<'_> {
    fn run_now(&mut self, world: &World) {
        self.dispatch(world);
    }

    fn setup(&mut self, world: &mut World) {
        self.setup(world);
    }

    fn dispose(self: Box<Self>, world: &mut World) {
        (*self).dispose(world);
    }
}

#[cfg(test)]
mod tests {
    #[test]
    fn send_dispatcher_is_send() {
        fn is_send<T: Send>() {}
        is_send::<super::SendDispatcher>();
    }
}
