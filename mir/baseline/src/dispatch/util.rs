pub fn check_intersection<'i, 'j, T, I, J>(mut i: I, j: J) -> bool
where
    I: Iterator<Item = &'i T>,
    J: Iterator<Item = &'j T> + Clone,
    T: PartialEq + 'i + 'j,
{
    i.any(|elem_i| j.clone().any(|elem_j| *elem_j == *elem_i))
}
