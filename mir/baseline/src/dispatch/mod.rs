#[cfg(feature = "parallel")]
pub use self::async_dispatcher::AsyncDispatcher;
#[cfg(feature = "parallel")]
pub use self::par_seq::{Par, ParSeq, RunWithPool, Seq};
pub use self::{
    batch::{
        BatchAccessor, BatchController, BatchUncheckedWorld, MultiDispatchController,
        MultiDispatcher,
    },
    builder::DispatcherBuilder,
    dispatcher::Dispatcher,
    send_dispatcher::SendDispatcher,
};

#[cfg(feature = "parallel")]
mod async_dispatcher;
mod batch;
mod builder;
mod dispatcher;
#[cfg(feature = "parallel")]
mod par_seq;
mod send_dispatcher;
mod stage;
mod util;

#[cfg(feature = "verif-hooks")]
#[allow(missing_docs)]
pub(crate) mod verif_reexports {
    pub use super::batch::VerifBatchSystem;
    pub use super::dispatcher::{new_dispatcher, SystemExecSend, SystemId, ThreadLocal};
    #[cfg(feature = "parallel")]
    pub use super::dispatcher::ThreadPoolWrapper;
    pub use super::stage::{Stage, StagesBuilder, VerifConflict, VerifTarget};
}
