use std::borrow::Borrow;

use rayon::{ThreadPool, join};

use crate::{
    dispatch::util::check_intersection,
    system::{RunNow, System},
    world::{ResourceId, World},
};

/// The "leave node" for the `Par` / `Seq` list.
pub struct Nil;

/// The `par!` macro may be used to easily create a structure
/// which runs things in parallel.
///
/// ## Examples
///
/// ```
/// #[macro_use(par)]
/// extern crate shred;
///
/// # use shred::System;
/// # struct SysA; impl<'a> System<'a> for SysA { type SystemData = (); fn run(&mut self, _: ()){}}
/// # struct SysB; impl<'a> System<'a> for SysB { type SystemData = (); fn run(&mut self, _: ()){}}
/// # struct SysC; impl<'a> System<'a> for SysC { type SystemData = (); fn run(&mut self, _: ()){}}
/// # fn main() {
/// par![
///     SysA,
///     SysB,
///     SysC,
/// ]
/// # ;}
/// ```
#[macro_export]
macro_rules! par {
    ($head:expr, $( $tail:expr ,)*) => {
        {
            $crate::Par::new($head)
                $( .with($tail) )*
        }
    };
}

/// The `seq!` macro may be used to easily create a structure
/// which runs things sequentially.
///
/// ## Examples
///
/// ```
/// #[macro_use(seq)]
/// extern crate shred;
///
/// # struct SysA;
/// # struct SysB;
/// # struct SysC;
/// # fn main() {
/// seq![SysA, SysB, SysC,]
/// # ;}
/// ```
#[macro_export]
macro_rules! seq {
    ($head:expr, $( $tail:expr ,)*) => {
        {
            $crate::Seq::new($head)
                $( .with($tail) )*
        }
    };
}

impl System<'_> for Nil {
    type SystemData = ();

    fn run(&mut self, _: Self::SystemData) {}
}

/// Runs two tasks in parallel.
/// These two tasks are called `head` and `tail`
/// in the following documentation.
pub struct Par<H, T> {
    head: H,
    tail: T,
}

impl<H> Par<H, Nil> {
    /// Creates a new `Par` struct, with the tail being a no-op.
    pub fn new(head: H) -> Self {
        Par { head, tail: Nil }
    }

    /// Adds `sys` as the second job and returns a new `Par` struct
    /// with the previous struct as head and a no-op tail.
    pub fn with<T>(self, sys: T) -> Par<Par<H, T>, Nil>
    where
        H: for<'a> RunWithPool<'a>,
        T: for<'a> RunWithPool<'a>,
    {
        if cfg!(debug_assertions) {
            let mut reads = Vec::new();
            let mut writes = Vec::new();
            self.head.reads(&mut reads);
            self.head.writes(&mut writes);

            let mut sys_reads = Vec::new();
            let mut sys_writes = Vec::new();
            sys.reads(&mut sys_reads);
            sys.writes(&mut sys_writes);

            let read_write_intersections_safe =
                !(check_intersection(writes.iter(), sys_reads.iter())
                    || check_intersection(writes.iter(), sys_writes.iter())
                    || check_intersection(reads.iter(), sys_writes.iter()));

            debug_assert!(
                read_write_intersections_safe,
                "Tried to add system with conflicting reads / writes"
            );
        }

        Par {
            head: Par {
                head: self.head,
                tail: sys,
            },
            tail: Nil,
        }
    }
}

/// A dispatcher intended to be used with
/// `Par` and `Seq`  structures.
///
/// This is more flexible and performant than `Dispatcher`,
/// however, you have to check conflicts yourself.
/// That means you cannot run two systems in parallel
/// which write to the same resource; if you'd do that,
/// one of the systems will panic while trying to fetch
/// the `SystemData`.
///
/// ## Thread-local systems
///
/// This dispatcher also allows more freedom
/// for thread-local systems; you can execute wherever you want,
/// just not in parallel with other systems (putting one inside
/// `par!` will give you a compile-time error saying the `Send` requirement
/// is unmet).
///
/// ## Examples
///
/// ```
/// # extern crate rayon;
/// #[macro_use(par, seq)]
/// extern crate shred;
///
/// # use rayon::ThreadPoolBuilder;
/// #
/// # use shred::{ParSeq, World, System};
/// #
/// # macro_rules! impl_sys {
/// #     ($( $id:ident )*) => {
/// #         $(
/// #             impl<'a> ::shred::System<'a> for $id {
/// #                 type SystemData = ();
/// #                 fn run(&mut self, _: Self::SystemData) {}
/// #             }
/// #         )*
/// #     };
/// # }
/// #
/// # struct SysA;
/// # struct SysB;
/// # struct SysC;
/// # struct SysD;
/// # struct SysWithLifetime<'a>(&'a u8);
/// # struct SysLocal(*const u8);
/// #
/// # impl_sys!(SysA SysB SysC SysD SysLocal);
/// #
/// # impl<'a, 'b> System<'a> for SysWithLifetime<'b> {
/// #     type SystemData = ();
/// #
/// #     fn run(&mut self, _: Self::SystemData) {}
/// # }
///
/// # fn main() {
/// # #![cfg_attr(rustfmt, rustfmt_skip)]
/// #
/// # let pool = ThreadPoolBuilder::default().build().unwrap();
/// #
/// # let mut world = World::empty();
/// let x = 5u8;
///
/// let mut dispatcher = ParSeq::new(
///     seq![
///         par![SysA, SysWithLifetime(&x), seq![SysC, SysD,],],
///         SysB,
///         SysLocal(&x as *const u8),
///     ],
///     &pool,
/// );
///
/// dispatcher.dispatch(&mut world);
/// # }
/// ```
pub struct ParSeq<P, T> {
    run: T,
    pool: P,
}

impl<P, T> ParSeq<P, T>
where
    P: Borrow<ThreadPool>,
    T: for<'a> RunWithPool<'a>,
{
    /// Creates a new `ParSeq` dispatcher.
    /// `run` is usually created by using the `par!` / `seq!`
    /// macros.
    pub fn new(run: T, pool: P) -> Self {
        ParSeq { run, pool }
    }

    /// Sets up `world` for `dispatch`ing. This will add default values for
    /// required resources by calling `System::setup`.
    pub fn setup(&mut self, world: &mut World) {
        self.run.setup(world);
    }

    /// Dispatches the systems using `world`.
    /// This doesn't call any virtual functions.
    ///
    /// Please note that this method assumes that no resource
    /// is currently borrowed. If that's the case, it panics.
    pub fn dispatch(&mut self, world: &World) {
        self.run.run(world, self.pool.borrow());
    }
}

impl<P, T> RunNow<'_> for ParSeq<P, T>
where
    P: Borrow<ThreadPool>,
    T: for<'b> RunWithPool<'b>,
{
    fn run_now(&mut self, world: &World) {
        RunWithPool::run(&mut self.run, world, self.pool.borrow());
    }

    fn setup(&mut self, world: &mut World) {
        RunWithPool::setup(&mut self.run, world);
    }
}

/// Similar to `RunNow` except additionally taking in a rayon::ThreadPool
/// for parallelism.
pub trait RunWithPool<'a> {
    /// Sets up `World` for a later call to `run`.
    fn setup(&mut self, world: &mut World);

    /// Runs the system/group of systems. Possibly in parallel depending
    /// on how the structure is set up.
    ///
    /// # Panics
    ///
    /// Panics if the system tries to fetch resources
    /// which are borrowed in an incompatible way already
    /// (tries to read from a resource which is already written to or
    /// tries to write to a resource which is read from).
    fn run(&mut self, world: &'a World, pool: &ThreadPool);

    /// Accumulates the necessary read/shared resources from the
    /// systems in this group.
    fn reads(&self, reads: &mut Vec<ResourceId>);

    /// Accumulates the necessary write/exclusive resources from the
    /// systems in this group.
    fn writes(&self, writes: &mut Vec<ResourceId>);
}

impl<'a, T> RunWithPool<'a> for T
where
    T: System<'a>,
{
    fn setup(&mut self, world: &mut World) {
        T::setup(self, world);
    }

    fn run(&mut self, world: &'a World, _: &ThreadPool) {
        RunNow::run_now(self, world);
    }

    fn reads(&self, reads: &mut Vec<ResourceId>) {
        use crate::system::Accessor;

        reads.extend(self.accessor().reads())
    }

    fn writes(&self, writes: &mut Vec<ResourceId>) {
        use crate::system::Accessor;

        writes.extend(self.accessor().writes())
    }
}

impl<'a, H, T> RunWithPool<'a> for Par<H, T>
where
    H: RunWithPool<'a> + Send,
    T: RunWithPool<'a> + Send,
{
    fn setup(&mut self, world: &mut World) {
        self.head.setup(world);
        self.tail.setup(world);
    }

    fn run(&mut self, world: &'a World, pool: &ThreadPool) {
        let head = &mut self.head;
        let tail = &mut self.tail;

        let head = move || head.run(world, pool);
        let tail = move || tail.run(world, pool);

        if pool.current_thread_index().is_none() {
            pool.join(head, tail);
        } else {
            join(head, tail);
        }
    }

    fn reads(&self, reads: &mut Vec<ResourceId>) {
        self.head.reads(reads);
        self.tail.reads(reads);
    }

    fn writes(&self, writes: &mut Vec<ResourceId>) {
        self.head.writes(writes);
        self.tail.writes(writes);
    }
}

/// Runs two tasks sequentially.
/// These two tasks are called `head` and `tail`
/// in the following documentation.
pub struct Seq<H, T> {
    head: H,
    tail: T,
}

impl<H> Seq<H, Nil> {
    /// Creates a new `Seq` struct, with the tail being a no-op.
    pub fn new(head: H) -> Self {
        Seq { head, tail: Nil }
    }

    /// Adds `sys` as the second job and returns a new `Seq` struct
    /// with the previous struct as head and a no-op tail.
    pub fn with<T>(self, sys: T) -> Seq<Seq<H, T>, Nil> {
        Seq {
            head: Seq {
                head: self.head,
                tail: sys,
            },
            tail: Nil,
        }
    }
}

impl<'a, H, T> RunWithPool<'a> for Seq<H, T>
where
    H: RunWithPool<'a>,
    T: RunWithPool<'a>,
{
    fn setup(&mut self, world: &mut World) {
        self.head.setup(world);
        self.tail.setup(world);
    }

    fn run(&mut self, world: &'a World, pool: &ThreadPool) {
        self.head.run(world, pool);
        self.tail.run(world, pool);
    }

    fn reads(&self, reads: &mut Vec<ResourceId>) {
        self.head.reads(reads);
        self.tail.reads(reads);
    }

    fn writes(&self, writes: &mut Vec<ResourceId>) {
        self.head.writes(writes);
        self.tail.writes(writes);
    }
}

#[cfg(test)]
mod tests {
    use super::*;
    use std::sync::{Arc, atomic::*};

    fn new_tp() -> ThreadPool {
        use rayon::ThreadPoolBuilder;

        ThreadPoolBuilder::new().build().unwrap()
    }

    #[test]
    fn nested_joins() {
        let pool = new_tp();

        pool.join(|| join(|| join(|| join(|| (), || ()), || ()), || ()), || ());
    }

    #[test]
    fn build_par() {
        let pool = new_tp();

        struct A(Arc<AtomicUsize>);

        impl System<'_> for A {
            type SystemData = ();

            fn run(&mut self, _: Self::SystemData) {
                self.0.fetch_add(1, Ordering::AcqRel);
            }
        }

        let nr = Arc::new(AtomicUsize::new(0));

        Par::new(A(nr.clone()))
            .with(A(nr.clone()))
            .with(A(nr.clone()))
            .run(&World::empty(), &pool);

        assert_eq!(nr.load(Ordering::Acquire), 3);

        par![A(nr.clone()), A(nr.clone()),].run(&World::empty(), &pool);

        assert_eq!(nr.load(Ordering::Acquire), 5);
    }

    #[test]
    fn build_seq() {
        let pool = new_tp();

        struct A(Arc<AtomicUsize>);

        impl System<'_> for A {
            type SystemData = ();

            fn run(&mut self, _: Self::SystemData) {
                self.0.fetch_add(1, Ordering::AcqRel);
            }
        }

        let nr = Arc::new(AtomicUsize::new(0));

        Seq::new(A(nr.clone()))
            .with(A(nr.clone()))
            .with(A(nr.clone()))
            .run(&World::empty(), &pool);

        assert_eq!(nr.load(Ordering::Acquire), 3);
    }
}
