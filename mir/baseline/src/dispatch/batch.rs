use crate::{
    dispatch::Dispatcher, world::ResourceId, Accessor, AccessorCow, DynamicSystemData, RunningTime,
    System, SystemData, World,
};

/// The `BatchAccessor` is used to notify the main dispatcher of the read and
/// write resources of the `System`s contained in the batch ("sub systems").
#[derive(Debug)]
pub struct BatchAccessor {
    reads: Vec<ResourceId>,
    writes: Vec<ResourceId>,
}

impl BatchAccessor {
    /// Creates a `BatchAccessor`
    pub fn new(reads: Vec<ResourceId>, writes: Vec<ResourceId>) -> Self {
        BatchAccessor { reads, writes }
    }
}

impl Accessor for BatchAccessor {
    fn try_new() -> Option<Self> {
        None
    }

    fn reads(&self) -> Vec<ResourceId> {
        self.reads.clone()
    }

    fn writes(&self) -> Vec<ResourceId> {
        self.writes.clone()
    }
}

/// The `BatchUncheckedWorld` wraps an instance of the world.
/// You have to specify this as `SystemData` for a `System` implementing
/// `BatchController`.
pub struct BatchUncheckedWorld<'a>(pub &'a World);

impl<'a> DynamicSystemData<'a> for BatchUncheckedWorld<'a> {
    type Accessor = BatchAccessor;

    fn setup(_accessor: &Self::Accessor, _world: &mut World) {}

    fn fetch(_access: &Self::Accessor, world: &'a World) -> Self {
        BatchUncheckedWorld(world)
    }
}

/// The `BatchController` describes things that allow one to control how batches
/// of systems are executed.
///
/// A batch is a set of systems represented as a dispatcher (a sub-dispatcher,
/// if you like).
///
/// It is registered with [`add_batch`][crate::DispatcherBuilder::add_batch],
/// together with the corresponding sub-dispatcher.
///
/// See the
/// [batch_dispatching](https://github.com/amethyst/shred/blob/master/examples/batch_dispatching.rs)
/// example.
///
/// The [`MultiDispatcher`] may help with implementing this in most common
/// cases.
pub trait BatchController<'a, 'b, 'c> {
    /// This associated type has to contain all resources batch controller uses
    /// directly.
    ///
    /// Note that these are not fetched automatically for the controller, as is
    /// the case with ordinary [`System`]s. This is because the fetched
    /// references might need to be dropped before actually dispatching the
    /// other systems to avoid collisions on them and it would not
    /// be possible to perform using a parameter.
    ///
    /// Therefore, these are only *declared* here, but not automatically
    /// fetched. If the declaration does not match reality, the scheduler
    /// might make suboptimal decisions (if this declares more than is
    /// actually needed) or it may panic in runtime (in case it declares less
    /// and there happens to be a collision).
    type BatchSystemData: SystemData<'c>;

    /// The body of the controller.
    ///
    /// It is allowed to fetch (manually) and examine its
    /// [`BatchSystemData`][BatchController::BatchSystemData]. Then it shall
    /// drop all fetched references and is free to call
    /// `dispatcher.dispatch(world)` as many time as it sees fit.
    fn run(&mut self, world: &'c World, dispatcher: &mut Dispatcher<'a, 'b>);

    /// Estimate how heavy the whole controller, including the sub-systems, is
    /// in terms of computation costs.
    fn running_time(&self) -> RunningTime {
        RunningTime::VeryLong
    }
}

pub(crate) struct BatchControllerSystem<'a, 'b, C> {
    accessor: BatchAccessor,
    controller: C,
    dispatcher: Dispatcher<'a, 'b>,
}

impl<'a, 'b, 'c, C> BatchControllerSystem<'a, 'b, C>
where
    C: BatchController<'a, 'b, 'c>,
{
    pub(crate) unsafe fn create(
        accessor: BatchAccessor,
        controller: C,
        dispatcher: Dispatcher<'a, 'b>,
    ) -> Self {
        Self {
            accessor,
            controller,
            dispatcher,
        }
    }
}

impl<'a, 'b, 'c, C> System<'c> for BatchControllerSystem<'a, 'b, C>
where
    C: BatchController<'a, 'b, 'c>,
{
    type SystemData = BatchUncheckedWorld<'c>;

    fn run(&mut self, data: Self::SystemData) {
        self.controller.run(data.0, &mut self.dispatcher);
    }

    fn running_time(&self) -> RunningTime {
        self.controller.running_time()
    }

    fn accessor<'s>(&'s self) -> AccessorCow<'c, 's, Self> {
        AccessorCow::Ref(&self.accessor)
    }

    fn setup(&mut self, world: &mut World) {
        world.setup::<C::BatchSystemData>();
        self.dispatcher.setup(world);
    }

    fn dispose(self, world: &mut World) {
        self.dispatcher.dispose(world);
    }
}

unsafe impl<C: Send> Send for BatchControllerSystem<'_, '_, C> {}
unsafe impl<C: Sync> Sync for BatchControllerSystem<'_, '_, C> {}

/// The controlling parts of simplified [`BatchController`]s for running a batch
/// fixed number of times.
///
/// If one needs to implement a [`BatchController`] that first examines some
/// data and decides upfront how many times a set of sub-systems are to be
/// dispatched, this can help with the implementation. This is less flexible (it
/// can't examine things in-between iterations of dispatching, for example), but
/// is often enough and more convenient as it avoids manual fetching
/// of the resources.
///
/// A common example is pausing a game ‒ based on some resource, the game
/// physics systems are run either 0 times or once.
///
/// A bigger example can be found in the
/// [multi_batch_dispatching](https://github.com/amethyst/shred/blob/master/examples/multi_batch_dispatching.rs).
///
/// To be useful, pass the controller to the constructor of [`MultiDispatcher`]
/// and register with [`add_batch`][crate::DispatcherBuilder::add_batch].
/// Verification hook: the real batch wrapper system around an already built
/// inner dispatcher (forwards to `BatchControllerSystem::create`).
#[cfg(feature = "verif-hooks")]
#[allow(missing_docs)]
pub struct VerifBatchSystem<'a, 'b, C>(BatchControllerSystem<'a, 'b, C>);

#[cfg(feature = "verif-hooks")]
#[allow(missing_docs)]
impl<'a, 'b, C> VerifBatchSystem<'a, 'b, C>
where
    C: for<'c> BatchController<'a, 'b, 'c> + Send + 'a,
    'b: 'a,
{
    pub fn new(accessor: BatchAccessor, controller: C, dispatcher: Dispatcher<'a, 'b>) -> Self {
        VerifBatchSystem(unsafe {
            BatchControllerSystem::<'a, 'b, C>::create(accessor, controller, dispatcher)
        })
    }

    pub fn reads(&self) -> Vec<ResourceId> {
        System::accessor(&self.0).reads()
    }

    pub fn writes(&self) -> Vec<ResourceId> {
        System::accessor(&self.0).writes()
    }

    pub fn running_time(&self) -> RunningTime {
        System::running_time(&self.0)
    }

    /// The wrapper as the boxed executable the dispatcher stores.
    pub fn into_exec(self) -> crate::dispatch::dispatcher::SystemExecSend<'a> {
        Box::new(self.0)
    }
}

pub trait MultiDispatchController<'a>: Send {
    /// What data it needs to decide on how many times the subsystems should be
    /// run.
    ///
    /// This may overlap with system data used by the subsystems, but doesn't
    /// have to contain them.
    type SystemData: SystemData<'a>;

    /// Performs the decision.
    ///
    /// Returns the number of times the batch should be run and the
    /// [`MultiDispatcher`] will handle the actual execution.
    fn plan(&mut self, data: Self::SystemData) -> usize;
}

/// A bridge from [`MultiDispatchController`] to [`BatchController`].
///
/// This allows to turn a [`MultiDispatchController`] into a [`BatchController`]
/// so it can be registered with
/// [`add_batch`][crate::DispatcherBuilder::add_batch].
pub struct MultiDispatcher<C> {
    controller: C,
}

impl<C> MultiDispatcher<C> {
    /// Constructor.
    ///
    /// The `controller` should implement [`MultiDispatchController`].
    pub fn new(controller: C) -> Self {
        Self { controller }
    }
}

impl<'a, 'b, 'c, C> BatchController<'a, 'b, 'c> for MultiDispatcher<C>
where
    C: MultiDispatchController<'c>,
{
    type BatchSystemData = C::SystemData;

    fn run(&mut self, world: &'c World, dispatcher: &mut Dispatcher<'a, 'b>) {
        let n = {
            let plan_data = world.system_data();
            self.controller.plan(plan_data)
        };

        for _ in 0..n {
            dispatcher.dispatch(world);
        }
    }
}

#[cfg(test)]
mod tests {

    use crate::{BatchController, Dispatcher, DispatcherBuilder, System, World, Write};

    /// This test demonstrate that the batch system is able to correctly setup
    /// its resources to default datas.
    #[test]
    fn test_setup() {
        let mut dispatcher = DispatcherBuilder::new()
            .with_batch(
                CustomBatchControllerSystem,
                DispatcherBuilder::new()
                    .with(BuyTomatoSystem, "buy_tomato_system", &[])
                    .with(BuyPotatoSystem, "buy_potato_system", &[]),
                "BatchSystemTest",
                &[],
            )
            .build();

        let mut world = World::empty();
        dispatcher.setup(&mut world);

        let potato_store = world.fetch::<PotatoStore>();
        let tomato_store = world.fetch::<TomatoStore>();
        assert!(!potato_store.is_store_open);
        assert!(!tomato_store.is_store_open);
        assert_eq!(potato_store.potato_count, 50);
        assert_eq!(tomato_store.tomato_count, 50);
    }

    /// This test demonstrate that the `CustomBatchControllerSystem` is able to
    /// dispatch its systems three times per dispatching in parallel.
    ///
    /// The parallel dispatching happen because there is no dependency between
    /// the two systems.
    ///
    /// Also the `OpenStoresSystem' and the `CloseStoresSystem` which request
    /// mutable access to the same dependencies used by the store systems
    /// are dispatched in sequence; respectivelly before and after the
    /// batch.
    ///
    /// Note that the Setup of the dispatcher is able to correctly create the
    /// store objects with default data.
    #[test]
    fn test_parallel_batch_execution() {
        let mut dispatcher = DispatcherBuilder::new()
            .with(OpenStoresSystem, "open_stores_system", &[])
            .with_batch(
                CustomBatchControllerSystem,
                DispatcherBuilder::new()
                    .with(BuyTomatoSystem, "buy_tomato_system", &[])
                    .with(BuyPotatoSystem, "buy_potato_system", &[]),
                "BatchSystemTest",
                &[],
            )
            .with(CloseStoresSystem, "close_stores_system", &[])
            .build();

        let mut world = World::empty();

        dispatcher.setup(&mut world);

        {
            // Initial assertion
            let potato_store = world.fetch::<PotatoStore>();
            let tomato_store = world.fetch::<TomatoStore>();
            assert!(!potato_store.is_store_open);
            assert!(!tomato_store.is_store_open);
            assert_eq!(potato_store.potato_count, 50);
            assert_eq!(tomato_store.tomato_count, 50);
        }

        // Running phase
        for _i in 0..10 {
            dispatcher.dispatch(&world);
        }

        {
            // This demonstrate that the batch system dispatch three times per
            // dispatch.
            let potato_store = world.fetch::<PotatoStore>();
            let tomato_store = world.fetch::<TomatoStore>();
            assert!(!potato_store.is_store_open);
            assert!(!tomato_store.is_store_open);
            assert_eq!(potato_store.potato_count, 50 - (3 * 10));
            assert_eq!(tomato_store.tomato_count, 50 - (3 * 10));
        }
    }

    /// This test demonstrate that the `CustomBatchControllerSystem` is able to
    /// dispatch its systems three times per dispatching in sequence.
    ///
    /// The sequence dispatching happen because there is a dependency between
    /// the two systems.
    ///
    /// Also the `OpenStoresSystem' and the `CloseStoresSystem` which request
    /// mutable access to the same dependencies used by the store systems
    /// are dispatched in sequence; respectivelly before and after the
    /// batch.
    ///
    /// The Setup of the dispatcher is able to correctly create the
    /// store objects with default data.
    /// Note the CustomWallet is created by the Batch setup demonstrating once
    /// again that it works.
    #[test]
    fn test_sequence_batch_execution() {
        let mut dispatcher = DispatcherBuilder::new()
            .with(OpenStoresSystem, "open_stores_system", &[])
            .with_batch(
                CustomBatchControllerSystem,
                DispatcherBuilder::new()
                    .with(BuyTomatoWalletSystem, "buy_tomato_system", &[])
                    .with(BuyPotatoWalletSystem, "buy_potato_system", &[]),
                "BatchSystemTest",
                &[],
            )
            .with(CloseStoresSystem, "close_stores_system", &[])
            .build();

        let mut world = World::empty();

        dispatcher.setup(&mut world);

        {
            // Initial assertion
            let potato_store = world.fetch::<PotatoStore>();
            let tomato_store = world.fetch::<TomatoStore>();
            let customer_wallet = world.fetch::<CustomerWallet>();
            assert!(!potato_store.is_store_open);
            assert!(!tomato_store.is_store_open);
            assert_eq!(potato_store.potato_count, 50);
            assert_eq!(tomato_store.tomato_count, 50);
            assert_eq!(customer_wallet.cents_count, 2000);
        }

        // Running phase
        for _i in 0..10 {
            dispatcher.dispatch(&world);
        }

        {
            // This demonstrate that the batch system dispatch three times per
            // dispatch.
            let potato_store = world.fetch::<PotatoStore>();
            let tomato_store = world.fetch::<TomatoStore>();
            let customer_wallet = world.fetch::<CustomerWallet>();
            assert!(!potato_store.is_store_open);
            assert!(!tomato_store.is_store_open);
            assert_eq!(potato_store.potato_count, 50 - (3 * 10));
            assert_eq!(tomato_store.tomato_count, 50 - (3 * 10));
            assert_eq!(customer_wallet.cents_count, 2000 - ((50 + 150) * 3 * 10));
        }
    }

    // Resources

    #[derive(Debug, Clone, Copy)]
    pub struct PotatoStore {
        pub is_store_open: bool,
        pub potato_count: i32,
    }

    impl Default for PotatoStore {
        fn default() -> Self {
            PotatoStore {
                is_store_open: false,
                potato_count: 50,
            }
        }
    }

    #[derive(Debug, Clone, Copy)]
    pub struct TomatoStore {
        pub is_store_open: bool,
        pub tomato_count: i32,
    }

    impl Default for TomatoStore {
        fn default() -> Self {
            TomatoStore {
                is_store_open: false,
                tomato_count: 50,
            }
        }
    }

    #[derive(Debug, Clone, Copy)]
    pub struct CustomerWallet {
        pub cents_count: i32,
    }

    impl Default for CustomerWallet {
        fn default() -> Self {
            CustomerWallet { cents_count: 2000 }
        }
    }

    // Open / Close Systems

    pub struct OpenStoresSystem;

    impl<'a> System<'a> for OpenStoresSystem {
        type SystemData = (Write<'a, PotatoStore>, Write<'a, TomatoStore>);

        fn run(&mut self, mut data: Self::SystemData) {
            data.0.is_store_open = true;
            data.1.is_store_open = true;
        }
    }

    pub struct CloseStoresSystem;

    impl<'a> System<'a> for CloseStoresSystem {
        type SystemData = (Write<'a, PotatoStore>, Write<'a, TomatoStore>);

        fn run(&mut self, mut data: Self::SystemData) {
            data.0.is_store_open = false;
            data.1.is_store_open = false;
        }
    }

    // Buy Systems

    pub struct BuyPotatoSystem;

    impl<'a> System<'a> for BuyPotatoSystem {
        type SystemData = Write<'a, PotatoStore>;

        fn run(&mut self, mut potato_store: Self::SystemData) {
            assert!(potato_store.is_store_open);
            potato_store.potato_count -= 1;
        }
    }

    pub struct BuyTomatoSystem;

    impl<'a> System<'a> for BuyTomatoSystem {
        type SystemData = Write<'a, TomatoStore>;

        fn run(&mut self, mut tomato_store: Self::SystemData) {
            assert!(tomato_store.is_store_open);
            tomato_store.tomato_count -= 1;
        }
    }

    // Buy systems with wallet

    pub struct BuyPotatoWalletSystem;

    impl<'a> System<'a> for BuyPotatoWalletSystem {
        type SystemData = (Write<'a, PotatoStore>, Write<'a, CustomerWallet>);

        fn run(&mut self, (mut potato_store, mut customer_wallet): Self::SystemData) {
            assert!(potato_store.is_store_open);
            potato_store.potato_count -= 1;
            customer_wallet.cents_count -= 50;
        }
    }

    pub struct BuyTomatoWalletSystem;

    impl<'a> System<'a> for BuyTomatoWalletSystem {
        type SystemData = (Write<'a, TomatoStore>, Write<'a, CustomerWallet>);

        fn run(&mut self, (mut tomato_store, mut customer_wallet): Self::SystemData) {
            assert!(tomato_store.is_store_open);
            tomato_store.tomato_count -= 1;
            customer_wallet.cents_count -= 150;
        }
    }

    // Custom Batch Controller which dispatch the systems three times

    pub struct CustomBatchControllerSystem;

    impl<'a, 'b> BatchController<'a, 'b, '_> for CustomBatchControllerSystem {
        type BatchSystemData = ();

        fn run(&mut self, world: &World, dispatcher: &mut Dispatcher<'a, 'b>) {
            for _i in 0..3 {
                dispatcher.dispatch(world);
            }
        }
    }
}
