use std::marker::PhantomData;

use crate::{
    cell::{AtomicRefCell, AtomicRefMut},
    world::{FetchMut, Resource, ResourceId},
};

type StdEntry<'a, K, V> = std::collections::hash_map::Entry<'a, K, V>;

/// An entry to a resource of the `World` struct.
/// This is similar to the Entry API found in the standard library.
///
/// ## Examples
///
/// ```
/// use shred::World;
///
/// #[derive(Debug)]
/// struct Res(i32);
///
/// let mut world = World::empty();
///
/// let value = world.entry().or_insert(Res(4));
/// println!("{:?}", value.0 * 2);
/// ```
pub struct Entry<'a, T: 'a> {
    inner: StdEntry<'a, ResourceId, AtomicRefCell<Box<dyn Resource>>>,
    marker: PhantomData<T>,
}

impl<'a, T> Entry<'a, T>
where
    T: Resource + 'a,
{
    /// Returns this entry's value, inserts and returns `v` otherwise.
    ///
    /// Please note that you should use `or_insert_with` in case the creation of
    /// the value is expensive.
    pub fn or_insert(self, v: T) -> FetchMut<'a, T> {
        self.or_insert_with(move || v)
    }

    /// Returns this entry's value, inserts and returns the return value of `f`
    /// otherwise.
    pub fn or_insert_with<F>(self, f: F) -> FetchMut<'a, T>
    where
        F: FnOnce() -> T,
    {
        let value = self
            .inner
            .or_insert_with(move || AtomicRefCell::new(Box::new(f())));
        let inner = AtomicRefMut::map(value.borrow_mut(), Box::as_mut);

        FetchMut {
            inner,
            phantom: PhantomData,
        }
    }
}

pub(super) fn create_entry<T>(
    e: StdEntry<ResourceId, AtomicRefCell<Box<dyn Resource>>>,
) -> Entry<T> {
    Entry {
        inner: e,
        marker: PhantomData,
    }
}

#[cfg(test)]
mod tests {
    use crate::world::World;

    #[test]
    fn test_entry() {
        struct Res;

        let mut world = World::empty();
        world.entry().or_insert(Res);

        assert!(world.has_value::<Res>());
    }
}
