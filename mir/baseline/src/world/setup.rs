use crate::{Resource, World};

macro_rules! fetch_panic {
    () => {{
        panic!(
            "\
            Tried to fetch resource of type `{resource_name_simple}`[^1] from the `World`, but \
            the resource does not exist.\n\
\n\
            You may ensure the resource exists through one of the following methods:\n\
\n\
            * Inserting it when the world is created: `world.insert(..)`.\n\
            * If the resource implements `Default`, include it in a system's `SystemData`, \
              and ensure the system is registered in the dispatcher.\n\
            * If the resource does not implement `Default`, insert it in the world during \
              `System::setup`.\n\
\n\
            [^1]: Full type name: `{resource_name_full}`\
            ",
            resource_name_simple = tynm::type_name::<T>(),
            resource_name_full = std::any::type_name::<T>(),
        )
    }};
}

/// A `SetupHandler` that simply uses the default implementation.
pub struct DefaultProvider;

impl<T> SetupHandler<T> for DefaultProvider
where
    T: Default + Resource,
{
    fn setup(world: &mut World) {
        world.entry().or_insert_with(T::default);
    }
}

/// A setup handler performing the fetching of `T`.
pub trait SetupHandler<T>: Sized {
    /// Sets up `World` for fetching `T`.
    fn setup(world: &mut World);
}

/// A setup handler that simply does nothing and thus will cause a panic on
/// fetching.
///
/// A typedef called `ReadExpect` exists, so you usually don't use this type
/// directly.
pub struct PanicHandler;

impl<T> SetupHandler<T> for PanicHandler
where
    T: Resource,
{
    fn setup(_: &mut World) {}
}
