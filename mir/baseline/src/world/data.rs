use std::{
    marker::PhantomData,
    ops::{Deref, DerefMut},
};

use crate::{
    DefaultProvider, Fetch, FetchMut, PanicHandler, Resource, ResourceId, SetupHandler, SystemData,
    World,
};

/// Allows to fetch a resource in a system immutably.
///
/// If the resource isn't strictly required, you should use `Option<Read<T>>`.
///
/// # Type parameters
///
/// * `T`: The type of the resource
/// * `F`: The setup handler (default: `DefaultProvider`)
pub struct Read<'a, T: 'a, F = DefaultProvider> {
    inner: Fetch<'a, T>,
    phantom: PhantomData<F>,
}

impl<T, F> Deref for Read<'_, T, F>
where
    T: Resource,
{
    type Target = T;

    fn deref(&self) -> &T {
        &self.inner
    }
}

impl<'a, T, F> From<Fetch<'a, T>> for Read<'a, T, F> {
    fn from(inner: Fetch<'a, T>) -> Self {
        Read {
            inner,
            phantom: PhantomData,
        }
    }
}

impl<'a, T, F> SystemData<'a> for Read<'a, T, F>
where
    T: Resource,
    F: SetupHandler<T>,
{
    fn setup(world: &mut World) {
        F::setup(world)
    }

    fn fetch(world: &'a World) -> Self {
        world.fetch::<T>().into()
    }

    fn reads() -> Vec<ResourceId> {
        vec![ResourceId::new::<T>()]
    }

    fn writes() -> Vec<ResourceId> {
        vec![]
    }
}

/// Allows to fetch a resource in a system mutably.
///
/// If the resource isn't strictly required, you should use `Option<Write<T>>`.
///
/// # Type parameters
///
/// * `T`: The type of the resource
/// * `F`: The setup handler (default: `DefaultProvider`)
pub struct Write<'a, T: 'a, F = DefaultProvider> {
    inner: FetchMut<'a, T>,
    phantom: PhantomData<F>,
}

impl<T, F> Deref for Write<'_, T, F>
where
    T: Resource,
{
    type Target = T;

    fn deref(&self) -> &T {
        &self.inner
    }
}

impl<T, F> DerefMut for Write<'_, T, F>
where
    T: Resource,
{
    fn deref_mut(&mut self) -> &mut T {
        &mut self.inner
    }
}

impl<'a, T, F> From<FetchMut<'a, T>> for Write<'a, T, F> {
    fn from(inner: FetchMut<'a, T>) -> Self {
        Write {
            inner,
            phantom: PhantomData,
        }
    }
}

impl<'a, T, F> SystemData<'a> for Write<'a, T, F>
where
    T: Resource,
    F: SetupHandler<T>,
{
    fn setup(world: &mut World) {
        F::setup(world)
    }

    fn fetch(world: &'a World) -> Self {
        world.fetch_mut::<T>().into()
    }

    fn reads() -> Vec<ResourceId> {
        vec![]
    }

    fn writes() -> Vec<ResourceId> {
        vec![ResourceId::new::<T>()]
    }
}

// ------------------

impl<'a, T, F> SystemData<'a> for Option<Read<'a, T, F>>
where
    T: Resource,
{
    fn setup(_: &mut World) {}

    fn fetch(world: &'a World) -> Self {
        world.try_fetch().map(Into::into)
    }

    fn reads() -> Vec<ResourceId> {
        vec![ResourceId::new::<T>()]
    }

    fn writes() -> Vec<ResourceId> {
        vec![]
    }
}

impl<'a, T, F> SystemData<'a> for Option<Write<'a, T, F>>
where
    T: Resource,
{
    fn setup(_: &mut World) {}

    fn fetch(world: &'a World) -> Self {
        world.try_fetch_mut().map(Into::into)
    }

    fn reads() -> Vec<ResourceId> {
        vec![]
    }

    fn writes() -> Vec<ResourceId> {
        vec![ResourceId::new::<T>()]
    }
}

/// Allows to fetch a resource in a system immutably.
/// **This will panic if the resource does not exist.**
/// Usage of `Read` or `Option<Read>` is therefore recommended.
pub type ReadExpect<'a, T> = Read<'a, T, PanicHandler>;

/// Allows to fetch a resource in a system mutably.
/// **This will panic if the resource does not exist.**
/// Usage of `Write` or `Option<Write>` is therefore recommended.
pub type WriteExpect<'a, T> = Write<'a, T, PanicHandler>;
