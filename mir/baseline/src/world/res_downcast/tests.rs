use std::any::TypeId;

use crate::Resource;

pub struct MyResource {}
pub struct AnotherResource {}

#[test]
fn dyn_has_correct_type_id() {
    let my_resource = MyResource {};
    let my_resource_dyn: &dyn Resource = &my_resource;

    assert_eq!(my_resource_dyn.type_id(), TypeId::of::<MyResource>());
}

#[test]
fn downcast_allowed() {
    let my_resource = MyResource {};
    let my_resource_dyn: &dyn Resource = &my_resource;

    assert!(my_resource_dyn.downcast_ref::<MyResource>().is_some());
}

#[test]
fn downcast_disallowed() {
    let my_resource = MyResource {};
    let my_resource_dyn: &dyn Resource = &my_resource;

    assert!(my_resource_dyn.downcast_ref::<AnotherResource>().is_none());
}
