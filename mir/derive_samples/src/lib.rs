//! Structs using `#[derive(SystemData)]` in the forms the property C06 quantifies over:
//! named struct, tuple struct, extra lifetimes, type parameters, where-clauses, nesting depth 3.
//! E2 reads the field types from this file and checks the MIR of the derived impls against them.
#![allow(dead_code)]
use shred::{PanicHandler, Read, Resource, SystemData, Write};
use std::marker::PhantomData;

#[derive(Default)]
pub struct RA;
#[derive(Default)]
pub struct RB;
#[derive(Default)]
pub struct RC;
#[derive(Default)]
pub struct RD;

#[derive(SystemData)]
pub struct Named<'a> {
    a: Read<'a, RA>,
    b: Write<'a, RB>,
    c: Option<Read<'a, RC>>,
}

#[derive(SystemData)]
pub struct Tup<'a>(Read<'a, RA>, Write<'a, RB>);

#[derive(SystemData)]
pub struct ExtraLt<'a, 'b> {
    a: Read<'a, RA, PanicHandler>,
    m: PhantomData<&'b ()>,
    w: Option<Write<'a, RD>>,
}

#[derive(SystemData)]
pub struct Generic<'a, T>
where
    T: Resource + Default,
{
    t: Read<'a, T>,
    b: Write<'a, RB, PanicHandler>,
}

#[derive(SystemData)]
pub struct Nested<'a> {
    inner: Named<'a>,
    pair: (Tup<'a>, Read<'a, RD>),
    unit: (),
}

#[derive(SystemData)]
pub struct Wide<'a> {
    f0: Read<'a, RA>,
    f1: Read<'a, RB>,
    f2: Write<'a, RC>,
    f3: Write<'a, RD>,
    f4: Option<Read<'a, u8>>,
    f5: Option<Write<'a, u16>>,
    f6: Read<'a, u32, PanicHandler>,
    f7: Write<'a, u64, PanicHandler>,
}

#[derive(SystemData)]
pub struct Deep<'a> {
    n: Nested<'a>,
    g: Generic<'a, RC>,
}

/// a field whose type is a bare type parameter of the struct
#[derive(SystemData)]
pub struct Wrapper<'a, D>
where
    D: SystemData<'a>,
{
    inner: D,
    extra: Read<'a, RA>,
}

#[derive(SystemData)]
pub struct WrapperTuple<'a, D: SystemData<'a>>(D, Write<'a, RB>);
