"""E2: symbolic execution of rustc's MIR dump into z3 terms.

A function body is executed path by path. Callees are *uninterpreted*: a call appends an event
(callee, argument terms, result term) to the path's trace and yields a fresh result; for enum- or
bool-typed results a discriminant variable is introduced when the body branches on it, the solver
prunes infeasible arms.  A few std functions on `Vec<ResourceId>` have sequence semantics
(new / append / extend / push / vec![..] / clone) so that "reads = r_A ++ r_B ++ ..." is a z3
sequence equality.  References are places; a call that receives `&mut place` from an unknown
callee havocs nothing (the callee is recorded in the trace with the place as argument - the specs
reason about *which* place was handed to *which* callee in *which* order).

Unknown statement / terminator forms raise Unsupported: the caller reports INCONCLUSIVE.
"""
import itertools, os, re, subprocess, time
import z3

V = z3.DeclareSort('V')
RID = z3.DeclareSort('ResourceId')
SeqR = z3.SeqSort(RID)
f_fld = z3.Function('fld', V, z3.IntSort(), V)
f_vfld = z3.Function('vfld', V, z3.IntSort(), z3.IntSort(), V)   # (value, variant, index)
f_deref = z3.Function('deref', V, V)
f_ref = z3.Function('ref', V, V)
f_disc = z3.Function('disc', V, z3.IntSort())
f_cst = z3.Function('cst', z3.IntSort(), V)
f_seqval = z3.Function('seqval', SeqR, V)
f_seqof = z3.Function('seqof', V, SeqR)
f_rid = z3.Function('rid_of', V, RID)


class Unsupported(Exception):
    pass


_ids = itertools.count()
_cst_ids = {}
_fn_syms = {}


def fresh(prefix):
    return z3.Const('%s!%d' % (prefix, next(_ids)), V)


def cst_term(text):
    if text not in _cst_ids:
        _cst_ids[text] = len(_cst_ids)
    return f_cst(_cst_ids[text])


def id_of(ty):
    return mk_fn('IdOf', 1)(cst_term('type:' + re.sub(r'\s+', '', ty)))


def mk_fn(name, n):
    k = (name, n)
    if k not in _fn_syms:
        _fn_syms[k] = z3.Function('mk_%s_%d' % (re.sub(r'\W+', '_', name), n), *([V] * n + [V]))
    return _fn_syms[k]


# ------------------------------------------------------------------------------------------------
# values

class T:          # opaque term
    def __init__(self, term): self.term = term
    def __repr__(self): return str(self.term)


class Cst:        # literal constant / fn item / ZST
    def __init__(self, text): self.text = text
    def __repr__(self): return 'const(%s)' % self.text


class Agg:        # tuple / array / struct / enum variant / closure with known fields
    def __init__(self, kind, fields, variant=None, names=None):
        self.kind, self.fields, self.variant, self.names = kind, list(fields), variant, names
    def __repr__(self): return '%s%s{%s}' % (self.kind, ('#%s' % self.variant) if self.variant is not None else '', ', '.join(map(repr, self.fields)))


class Ref:        # reference / raw pointer to a place
    def __init__(self, place, mut=False): self.place = place; self.mut = mut
    def __repr__(self): return '&%r' % (self.place,)


class SeqV:       # Vec<ResourceId> with sequence semantics
    def __init__(self, seq): self.seq = seq
    def __repr__(self): return 'seq(%s)' % self.seq


class DiscV:      # discriminant of a value
    def __init__(self, of): self.of = of
    def __repr__(self): return 'discr(%r)' % (self.of,)


class Place:
    """base: ('L', n) local of the executed function | ('H', term) object behind an opaque pointer; path: projections"""
    def __init__(self, base, path=()): self.base, self.path = base, tuple(path)
    def key(self): return (self.base[0], str(self.base[1]))
    def __repr__(self): return '%s%s%s' % (self.base[0], self.base[1], ''.join('.%s' % (p,) for p in self.path))


def to_term(v):
    if isinstance(v, T): return v.term
    if isinstance(v, Cst): return cst_term(v.text)
    if isinstance(v, DiscV):
        if isinstance(v.of, Agg) and v.of.variant is not None:
            return cst_term('variant:%s' % v.of.variant)
        return mk_fn('discr', 1)(to_term(v.of))
    if isinstance(v, SeqV): return f_seqval(v.seq)
    if isinstance(v, Ref):
        pl = v.place
        if pl.base[0] == 'H' and not pl.path and z3.is_app(pl.base[1]) and pl.base[1].decl().name() == 'deref':
            return pl.base[1].arg(0)          # `&*p` is p (reborrow)
        return f_ref(place_term(pl))
    if isinstance(v, Agg):
        name = v.kind + ('#%s' % v.variant if v.variant is not None else '')
        return mk_fn(name, len(v.fields))(*[to_term(x) for x in v.fields]) if v.fields else cst_term('agg:' + name)
    raise Unsupported('to_term %r' % (v,))


def place_term(pl):
    t = z3.Const('local_%s' % pl.base[1], V) if pl.base[0] == 'L' else pl.base[1]
    for p in pl.path:
        if isinstance(p, tuple) and p[0] == 'V':
            t = mk_fn('as_' + p[1], 1)(t)
        elif isinstance(p, tuple) and p[0] == 'I':
            t = mk_fn('index', 2)(t, p[1])
        else:
            t = f_fld(t, p)
    return t


def project(v, p):
    """Field p of value v. p: int (field) or (variant_index, field)."""
    if isinstance(v, Agg):
        idx = p[1] if isinstance(p, tuple) else p
        if idx < len(v.fields):
            return v.fields[idx]
        raise Unsupported('field %r of %r' % (p, v))
    if isinstance(v, (T, Cst, DiscV)):
        return T(f_fld(to_term(v), p))
    if isinstance(v, SeqV):
        return T(f_fld(to_term(v), p if not isinstance(p, tuple) else p[1]))
    if isinstance(v, Ref):
        # fields of a fat/thin pointer wrapper (Box/Unique/NonNull): transparent
        return v
    raise Unsupported('project %r . %r' % (v, p))


# ------------------------------------------------------------------------------------------------
# parsing

class Fn:
    pass


HDR = re.compile(r'^fn (.*?)\(((?:_\d+: .*)?)\) -> (.*) \{$')


def split_top(s, sep=','):
    out, depth, cur = [], 0, ''
    i = 0
    while i < len(s):
        ch = s[i]
        if ch in '([{<':
            depth += 1
        elif ch in ')]}':
            depth -= 1
        elif ch == '>' and not (i > 0 and s[i - 1] in '-='):
            depth -= 1
        if ch == sep and depth == 0:
            out.append(cur.strip()); cur = ''
        else:
            cur += ch
        i += 1
    if cur.strip():
        out.append(cur.strip())
    return out


def parse_mir(path, repo='/repo'):
    txt = open(path).read()
    fns = []
    cur = None
    lines = txt.split('\n')
    i = 0
    while i < len(lines):
        ln = lines[i]
        m = HDR.match(ln) if ln.startswith('fn ') else None
        if m:
            f = Fn()
            f.name, f.ret = m.group(1), m.group(3)
            f.params = []
            for p in split_top(m.group(2)):
                a, b = p.split(': ', 1)
                f.params.append((a.strip(), b.strip()))
            f.locals = dict(f.params)
            f.blocks, f.cleanup, f.order = {}, set(), len(fns)
            f.debug = {}
            i += 1
            while i < len(lines) and lines[i] != '}':
                l = lines[i]
                s = l.strip()
                mm = re.match(r'^let (?:mut )?(_\d+): (.*);$', s)
                if mm:
                    f.locals[mm.group(1)] = mm.group(2)
                mm = re.match(r'^debug (\w+) => (.*);$', s)
                if mm:
                    f.debug[mm.group(1)] = mm.group(2)
                mm = re.match(r'^    (bb\d+)( \(cleanup\))?: \{$', l)
                if mm:
                    bb = mm.group(1)
                    if mm.group(2):
                        f.cleanup.add(bb)
                    body = []
                    i += 1
                    while lines[i] != '    }':
                        st = lines[i].strip()
                        if st.endswith(';'):
                            st = st[:-1]
                        if st:
                            body.append(st)
                        i += 1
                    f.blocks[bb] = body
                i += 1
            f.impl_header = impl_header(f.name, repo)
            f.short = f.name.split('>::')[-1] if '>::' in f.name else f.name
            fns.append(f)
        i += 1
    return fns


_src_cache = {}


def impl_header(name, repo):
    m = re.search(r'<impl at (src/[\w/]+\.rs):(\d+):(\d+): (\d+):(\d+)>', name)
    if not m:
        return ''
    p = os.path.join(repo, m.group(1))
    if p not in _src_cache:
        try:
            _src_cache[p] = open(p).read().split('\n')
        except OSError:
            _src_cache[p] = []
    ls = _src_cache[p]
    a, b = int(m.group(2)), int(m.group(4))
    seg = ' '.join(x.strip() for x in ls[a - 1:b])
    return m.group(1) + ': ' + re.sub(r'\s+', ' ', seg)


# ------------------------------------------------------------------------------------------------
# executor

def norm_callee(c):
    c = re.sub(r"'\w+", "'_", c)
    c = re.sub(r'\s+', ' ', c)
    return c


class Event:
    def __init__(self, callee, args, result, argvals):
        self.callee, self.args, self.result, self.argvals = callee, args, result, argvals
    def __repr__(self):
        return '%s(%s)' % (self.callee, ', '.join(str(a) for a in self.args))


class PathState:
    def __init__(self):
        self.store = {}        # place key -> {path: value}
        self.trace = []
        self.cond = []
        self.decisions = []
        self.notes = []
        self.visits = {}
    def fork(self):
        q = PathState()
        q.store = {k: dict(v) for k, v in self.store.items()}
        q.trace = list(self.trace); q.cond = list(self.cond); q.decisions = list(self.decisions)
        q.notes = list(self.notes); q.visits = dict(self.visits)
        return q


class Outcome:
    def __init__(self, kind, value, st, detail=''):
        self.kind, self.value, self.st, self.detail = kind, value, st, detail   # kind: return | diverge
    @property
    def trace(self): return self.st.trace
    def calls(self, pat=None):
        return [e for e in self.st.trace if pat is None or re.search(pat, e.callee)]


SEQ_ELEM_CALLS = re.compile(r'^(world::)?ResourceId::new(_with_dynamic_id)?::<|^ResourceId::new')


class Exec:
    def __init__(self, fn, loop_bound=3, stats=None, param_values=None, leaf_summaries=False, frame=''):
        self.fn = fn
        self.leaf_summaries = leaf_summaries
        self.frame = frame            # prefix of local place names (nested frames of inlined callees)
        self.loop_bound = loop_bound
        self.stats = stats if stats is not None else {'feasibility_queries': 0, 'solver_s': 0.0}
        self.param_values = param_values or {}
        self.params = {}
        for i, (loc, ty) in enumerate(fn.params):
            self.params[self.frame + loc] = self.param_values.get(loc) or T(z3.Const('p%d' % (i + 1), V))

    # ---- places
    def parse_place(self, s, st):
        """Returns a Place for a MIR place expression."""
        s = s.strip()
        if re.match(r'^_\d+$', s):
            return Place(('L', self.frame + s))
        if s.startswith('(') and s.endswith(')'):
            inner = s[1:-1]
            # (*X)
            if inner.startswith('*'):
                v = self.read(self.parse_place(inner[1:], st), st)
                return self.deref_place(v)
            # (X as Variant)
            mm = re.match(r'^(.*) as (\w+)$', inner)
            if mm and not re.search(r': ', inner.split(' as ')[-1]):
                base = self.parse_place(mm.group(1), st)
                return Place(base.base, base.path + (('V', mm.group(2)),))
            # (X.N: T)
            depth = 0
            for j in range(len(inner)):
                ch = inner[j]
                if ch in '([{<': depth += 1
                elif ch in ')]}>' and not (ch == '>' and inner[j - 1] in '-='): depth -= 1
                elif ch == ':' and depth == 0 and inner[j + 1] == ' ':
                    left = inner[:j]
                    k = left.rindex('.')
                    base = self.parse_place(left[:k], st)
                    return Place(base.base, base.path + (int(left[k + 1:]),))
        m = re.match(r'^(.*)\[(_\d+)\]$', s)
        if m:
            base = self.parse_place(m.group(1), st)
            idx = self.read(Place(('L', self.frame + m.group(2))), st)
            return Place(base.base, base.path + (('I', to_term(idx)),))
        m = re.match(r'^(.*)\[(\d+) of (\d+)\]$', s)
        if m:
            base = self.parse_place(m.group(1), st)
            return Place(base.base, base.path + (int(m.group(2)),))
        raise Unsupported('place ' + s)

    def deref_place(self, v):
        if isinstance(v, Ref):
            return v.place
        if isinstance(v, (T, Cst)):
            return Place(('H', f_deref(to_term(v))))
        if isinstance(v, Agg) and len(v.fields) >= 1:     # Box / Unique / NonNull wrappers
            return self.deref_place(v.fields[0])
        raise Unsupported('deref of %r' % (v,))

    def read(self, pl, st):
        key = pl.key()
        slots = st.store.get(key, {})
        # longest written prefix
        for n in range(len(pl.path), -1, -1):
            pre = pl.path[:n]
            if pre in slots:
                v = slots[pre]
                for p in pl.path[n:]:
                    v = self.proj(v, p)
                return v
        # nothing written: initial value
        if pl.base[0] == 'L':
            if pl.base[1] in self.params:
                v = self.params[pl.base[1]]
            else:
                v = T(z3.Const('uninit_%s' % pl.base[1], V))
        else:
            v = T(pl.base[1])
        for p in pl.path:
            v = self.proj(v, p)
        return v

    def proj(self, v, p):
        if isinstance(p, tuple) and p[0] == 'V':      # downcast: keep value, remember variant
            if isinstance(v, Agg):
                return v
            return T(mk_fn('as_' + p[1], 1)(to_term(v)))
        if isinstance(p, tuple) and p[0] == 'I':
            return T(mk_fn('index', 2)(to_term(v), p[1]))
        return project(v, p)

    def write(self, pl, val, st):
        key = pl.key()
        slots = st.store.setdefault(key, {})
        # drop more specific entries under this path
        for k in [k for k in slots if k[:len(pl.path)] == pl.path and k != pl.path]:
            del slots[k]
        # if a prefix holds an Agg, update it functionally
        for n in range(len(pl.path) - 1, -1, -1):
            pre = pl.path[:n]
            if pre in slots and isinstance(slots[pre], Agg):
                slots[pre] = self.update_agg(slots[pre], pl.path[n:], val)
                return
        slots[pl.path] = val

    def update_agg(self, agg, path, val):
        p = path[0]
        if isinstance(p, tuple):
            return self.update_agg(agg, path[1:], val) if len(path) > 1 else val
        fields = list(agg.fields)
        while len(fields) <= p:
            fields.append(T(fresh('f')))
        if len(path) == 1:
            fields[p] = val
        else:
            sub = fields[p]
            if isinstance(sub, Agg):
                fields[p] = self.update_agg(sub, path[1:], val)
            else:
                raise Unsupported('nested write into opaque value')
        return Agg(agg.kind, fields, agg.variant, agg.names)

    # ---- operands / rvalues
    def operand(self, s, st):
        s = s.strip()
        s = re.sub(r'^no_retag ', '', s)
        if s.startswith(('move ', 'copy ')):
            return self.read(self.parse_place(s[5:], st), st)
        if s.startswith('const '):
            return Cst(norm_callee(s[6:]))
        if '::' in s and not s.startswith('('):      # fn item passed by value
            return Cst('fn ' + norm_callee(s))
        raise Unsupported('operand ' + s)

    def rvalue(self, rhs, st):
        rhs = rhs.strip()
        if rhs.startswith('discriminant('):
            v = self.read(self.parse_place(rhs[13:-1], st), st)
            return DiscV(v)
        m = re.match(r'^&(?:raw (?:const|mut) (?:\(fake\) )?|mut |fake (?:shallow|deep) )?(.*)$', rhs)
        if m and rhs.startswith('&'):
            return Ref(self.parse_place(m.group(1), st), rhs.startswith(('&mut ', '&raw mut ')))
        m = re.match(r'^([^ ].*?) as (.*) \((\w+(?:\(.*\))?)\)$', rhs)
        if m and '::' in m.group(1) and not rhs.startswith(('move ', 'copy ', 'const ', 'no_retag ', '&')):
            return Cst('fn ' + norm_callee(m.group(1)))
        if rhs.startswith(('move ', 'copy ', 'const ', 'no_retag ')):
            m = re.match(r'^(.*?) as (.*) \((\w+(?:\(.*\))?)\)$', rhs)
            if m and not rhs.startswith('const '):
                if m.group(3) in ('IntToInt', 'FloatToInt', 'IntToFloat', 'FloatToFloat'):
                    # numeric conversions can lose information (machine words): an uninterpreted function per target type
                    return T(mk_fn('cast_' + re.sub(r'\W', '_', m.group(2)), 1)(to_term(self.operand(m.group(1), st))))
                return self.operand(m.group(1), st)          # pointer / unsizing casts are transparent
            if m and rhs.startswith('const '):
                return Cst(norm_callee(m.group(1)[6:]))
            return self.operand(rhs, st)
        m = re.match(r'^(Eq|Ne|Lt|Le|Gt|Ge|Add|Sub|Mul|Div|Rem|BitAnd|BitOr|BitXor|Shl|Shr|AddWithOverflow|SubWithOverflow|MulWithOverflow|Offset|AddUnchecked|SubUnchecked|Cmp)\((.*)\)$', rhs)
        if m:
            a, b = [self.operand(x, st) for x in split_top(m.group(2))]
            op = m.group(1)
            if isinstance(a, Cst) and isinstance(b, Cst) and op in ('Eq', 'Ne'):
                return Cst('true' if (a.text == b.text) == (op == 'Eq') else 'false')
            r = T(mk_fn('op_' + op, 2)(to_term(a), to_term(b)))
            if op.endswith('WithOverflow'):
                return Agg('tuple', [r, T(mk_fn('ovf_' + op, 2)(to_term(a), to_term(b)))])
            return r
        m = re.match(r'^(Not|Neg|PtrMetadata|Len)\((.*)\)$', rhs)
        if m:
            a = self.operand(m.group(2), st) if m.group(1) != 'Len' else self.read(self.parse_place(m.group(2), st), st)
            if isinstance(a, Cst) and m.group(1) == 'Not' and a.text in ('true', 'false'):
                return Cst('false' if a.text == 'true' else 'true')
            return T(mk_fn('op_' + m.group(1), 1)(to_term(a)))
        if re.match(r'^(SizeOf|AlignOf|NullaryOp)\b', rhs) or rhs.startswith('ShallowInitBox'):
            return T(fresh('nullary'))
        # aggregates
        if rhs.startswith('(') and rhs.endswith(')'):
            inner = rhs[1:-1].strip()
            items = split_top(inner[:-1] if inner.endswith(',') else inner)
            return Agg('tuple', [self.operand(x, st) for x in items])
        if rhs.startswith('[') and rhs.endswith(']'):
            m = re.match(r'^\[(.*); (.*)\]$', rhs)
            if m:
                return T(mk_fn('repeat', 1)(to_term(self.operand(m.group(1), st))))
            return Agg('array', [self.operand(x, st) for x in split_top(rhs[1:-1])])
        m = re.match(r'^(\{closure@[^}]*\})(?: \{(.*)\})?$', rhs)
        if m:
            fields, names = [], []
            for a in split_top(m.group(2) or ''):
                n, v = a.split(': ', 1)
                names.append(n.strip()); fields.append(self.operand(v, st))
            return Agg('closure@' + re.sub(r': \d+:\d+$', '', re.sub(r'^\{closure@|\}$', '', m.group(1))), fields, None, names)
        m = re.match(r'^([\w:<>\', &\[\];()+*-]+?) \{ (.*) \}$', rhs)
        if m:
            names, fields = [], []
            for a in split_top(m.group(2)):
                n, v = a.split(': ', 1)
                names.append(n.strip()); fields.append(self.operand(v, st))
            return Agg('struct ' + norm_struct(m.group(1)), fields, None, names)
        m = re.match(r"^(\w+)(?:::<.*?>)?\(((?:move|copy|const) .*)\)$", rhs)
        if m:   # tuple struct constructor  SystemId(move _1)
            return Agg('struct ' + m.group(1), [self.operand(x, st) for x in split_top(m.group(2))])
        m = re.match(r'^([\w:<>\', &\[\];()+*-]+)::(\w+)\((.*)\)$', rhs)
        if m:   # enum variant constructor  Option::<T>::Some(move _5)
            return Agg('variant ' + norm_struct(m.group(1)), [self.operand(x, st) for x in split_top(m.group(3))], m.group(2))
        m = re.match(r'^([\w:<>\', &\[\];()+*-]+)::(\w+)$', rhs)
        if m and m.group(2)[0].isupper():
            return Agg('variant ' + norm_struct(m.group(1)), [], m.group(2))
        if re.match(r'^[\w:<>\', &]+$', rhs):     # unit struct
            return Agg('struct ' + norm_struct(rhs), [])
        raise Unsupported('rvalue ' + rhs)

    # ---- calls with sequence semantics
    def intrinsic(self, callee, args, st):
        c = callee
        # ResourceId::new::<X>() has one value per type X: canonical term (still recorded as an event)
        m = re.match(r'^(?:world::)?ResourceId::new::<(.*)>$', c)
        if m and not args:
            res = id_of(m.group(1))
            st.trace.append(Event(callee, [], res, []))
            return T(res)
        # summaries of the library's own leaf declarations (each leaf impl is itself checked by C06's
        # leaf specification in the same run; the use graph must be acyclic - mirchecks checks that)
        m = re.match(r"^<(Option<)?(?:data::|world::|shred::)*(Read|Write)<'_, (.*?)(?:, [^<>]*)?>(>)? as (?:system::)?SystemData<'_>>::(reads|writes)$", c)
        if m and not args and self.leaf_summaries:
            kind, ty, meth = m.group(2), m.group(3), m.group(5)
            declared = (kind == 'Read' and meth == 'reads') or (kind == 'Write' and meth == 'writes')
            seq = z3.Unit(f_rid(id_of(ty))) if declared else z3.Empty(SeqR)
            res = fresh('ret')
            st.trace.append(Event(callee, [], res, []))
            st.notes.append('summary:' + callee)
            return SeqV(seq)
        if re.match(r'^Vec::<(world::)?ResourceId>::new$', c):
            return SeqV(z3.Empty(SeqR))
        if re.match(r'^Vec::<(world::)?ResourceId>::append$', c):
            a, b = args
            if isinstance(a, Ref) and isinstance(b, Ref):
                va, vb = self.read(a.place, st), self.read(b.place, st)
                self.write(a.place, SeqV(z3.Concat(as_seq(va), as_seq(vb))), st)
                self.write(b.place, SeqV(z3.Empty(SeqR)), st)
                return Cst('()')
        if re.search(r'box_assume_init_into_vec_unsafe::<(world::)?ResourceId, \d+>$', c) or re.search(r'slice::<impl \[(world::)?ResourceId\]>::into_vec', c):
            arr = self.find_boxed_array(args[0], st)
            if arr is not None:
                s = z3.Empty(SeqR)
                for e in arr.fields:
                    s = z3.Concat(s, z3.Unit(f_rid(to_term(e))))
                return SeqV(s)
        if re.match(r'^<Vec<(world::)?ResourceId> as Extend<(world::)?ResourceId>>::extend::<Vec<(world::)?ResourceId>>$', c):
            a, b = args
            if isinstance(a, Ref):
                va = self.read(a.place, st)
                self.write(a.place, SeqV(z3.Concat(as_seq(va), as_seq(b))), st)
                return Cst('()')
        if re.match(r'^Vec::<(world::)?ResourceId>::push$', c):
            a, b = args
            if isinstance(a, Ref):
                va = self.read(a.place, st)
                self.write(a.place, SeqV(z3.Concat(as_seq(va), z3.Unit(f_rid(to_term(b))))), st)
                return Cst('()')
        if re.match(r'^<Vec<(world::)?ResourceId> as Clone>::clone$', c):
            a = args[0]
            if isinstance(a, Ref):
                return SeqV(as_seq(self.read(a.place, st)))
        return None

    def find_boxed_array(self, box, st):
        # the array literal stored through the raw pointer of a Box::new_uninit() (vec![..] expansion)
        if not isinstance(box, (T, Agg, Ref)):
            return None
        for key, slots in st.store.items():
            if key[0] != 'H':
                continue
            for path, v in slots.items():
                if isinstance(v, Agg) and v.kind == 'array':
                    return v
        return None

    # ---- main loop
    def rename_callee(self, callee):
        return callee

    def make_event(self, callee, argv, res, st):
        return Event(callee, [to_term(x) for x in argv], res, argv)

    def call_model(self, callee, argv, st, done):
        """Hook for semantic models of callees (canonical mode): None = treat as an uninterpreted event;
        otherwise a list of (state, value) continuations (value None = that path diverged and was recorded)."""
        return None

    def run(self, st0=None):
        fn = self.fn
        done = []
        work = [(st0 if st0 is not None else PathState(), 'bb0')]
        steps = 0
        while work:
            st, bb = work.pop()
            steps += 1
            if steps > 4000:
                raise Unsupported('step bound exceeded in ' + fn.name)
            vk = self.frame + bb
            st.visits[vk] = st.visits.get(vk, 0) + 1
            if st.visits[vk] > self.loop_bound + 1:
                st.notes.append('loop bound %d reached at %s' % (self.loop_bound, bb))
                done.append(Outcome('bound', None, st, bb))
                continue
            body = fn.blocks[bb]
            for stmt in body[:-1]:
                self.statement(stmt, st)
            term = body[-1]
            for nst, nbb in self.terminator(term, st, done):
                work.append((nst, nbb))
        return done

    def statement(self, stmt, st):
        if stmt.startswith(('StorageLive', 'StorageDead', 'nop', 'PlaceMention', 'FakeRead', 'Retag', 'AscribeUserType', 'ConstEvalCounter', 'Coverage', 'BackwardIncompatibleDropHint')):
            return
        if stmt.startswith('Deinit('):
            return
        if stmt.startswith('assume('):
            return
        m = re.match(r'^discriminant\((.*)\) = (\d+)$', stmt)
        if m:
            return
        i = find_assign(stmt)
        if i < 0:
            raise Unsupported('statement ' + stmt)
        lhs, rhs = stmt[:i].strip(), stmt[i + 3:].strip()
        val = self.rvalue(rhs, st)
        self.write(self.parse_place(lhs, st), val, st)

    def branch(self, st, who, arms, done):
        """who: z3 Int expression; arms: [(value|None(otherwise), bb)]"""
        out = []
        taken = []
        for k, bb in arms:
            if k is None:
                c = z3.And(*[who != x for x in taken]) if taken else z3.BoolVal(True)
            else:
                c = who == k
                taken.append(k)
            if self.fn.blocks.get(bb) == ['unreachable']:
                continue
            s = z3.Solver()
            s.set('timeout', 20000)
            s.add(*st.cond)
            s.add(c)
            t0 = time.time()
            r = s.check()
            self.stats['feasibility_queries'] += 1
            self.stats['solver_s'] += time.time() - t0
            if r == z3.sat:
                q = st.fork()
                q.cond.append(c)
                q.decisions.append((str(who), k))
                out.append((q, bb))
        return out

    def terminator(self, t, st, done):
        fn = self.fn
        if t == 'return':
            done.append(Outcome('return', self.read(Place(('L', self.frame + '_0')), st), st))
            return []
        if t in ('unreachable',) or t.startswith('resume') or t.startswith('terminate'):
            return []
        m = re.match(r'^goto -> (bb\d+)$', t)
        if m:
            return [(st, m.group(1))]
        m = re.match(r'^drop\((.*)\) -> \[return: (bb\d+)', t)
        if m:
            try:
                pl = self.parse_place(m.group(1), st)
                st.trace.append(Event('drop', [place_term(pl)], None, [Ref(pl)]))
            except Unsupported:
                pass
            return [(st, m.group(2))]
        m = re.match(r'^assert\((!?)(.*?), ".*\) -> \[success: (bb\d+)', t)
        if m:
            st.notes.append('assert ' + t[:80])
            return [(st, m.group(3))]
        m = re.match(r'^switchInt\((.*)\) -> \[(.*)\]$', t)
        if m:
            v = self.operand(m.group(1), st) if not m.group(1).startswith('discriminant') else None
            arms = []
            for a in split_top(m.group(2)):
                k, bb = a.split(': ')
                arms.append((None if k == 'otherwise' else int(k), bb))
            if isinstance(v, DiscV):
                inner = v.of
                if isinstance(inner, Agg) and inner.variant is not None:
                    idx = variant_index(inner)
                    if idx is None:
                        raise Unsupported('discriminant of %r' % (inner,))
                    return self.concrete_branch(st, idx, arms)
                who = f_disc(to_term(inner))
                return self.branch(st, who, arms, done)
            if isinstance(v, Cst):
                val = {'true': 1, 'false': 0}.get(v.text)
                if val is None:
                    mm = re.match(r'^(-?\d+)', v.text)
                    if not mm:
                        raise Unsupported('switch on const ' + v.text)
                    val = int(mm.group(1))
                return self.concrete_branch(st, val, arms)
            who = f_disc(to_term(v))
            return self.branch(st, who, arms, done)
        # call
        m = re.match(r'^(.*?) = (.*)$', t)
        if ') -> ' in t and m:
            i = find_assign(t)
            dst, rest = t[:i].strip(), t[i + 3:]
            cut = rest.rindex(') -> ')
            tail, call = rest[cut + 5:], rest[:cut + 1]
            depth, j = 0, len(call) - 1
            while j >= 0:
                if call[j] == ')': depth += 1
                elif call[j] == '(':
                    depth -= 1
                    if depth == 0: break
                j -= 1
            callee, a = self.rename_callee(norm_callee(call[:j])), call[j + 1:-1]
            if callee.startswith(('move ', 'copy ')):
                fv = self.operand(callee, st)
                callee = 'indirect:' + str(to_term(fv))
            argv = [self.operand(x, st) for x in split_top(a)]
            mm = re.match(r'^\[return: (bb\d+)', tail)
            models = self.call_model(callee, argv, st, done)
            if models is not None:
                out = []
                for st_i, val in models:
                    if val is None:
                        continue
                    self.write(self.parse_place(dst, st_i), val, st_i)
                    if mm:
                        out.append((st_i, mm.group(1)))
                    else:
                        done.append(Outcome('diverge', None, st_i, callee))
                return out
            r = self.intrinsic(callee, argv, st)
            if r is None:
                res = fresh('ret')
                r = T(res)
                st.trace.append(self.make_event(callee, argv, res, st))
            self.write(self.parse_place(dst, st), r, st)
            mm = re.match(r'^\[return: (bb\d+)', tail)
            if mm:
                return [(st, mm.group(1))]
            done.append(Outcome('diverge', None, st, callee))
            return []
        m = re.match(r'^(.*\)) -> (unwind .*|\[.*\])$', t)
        if m and '(' in t:     # diverging call without destination, e.g. panic
            call = m.group(1)
            j = call.index('(')
            callee = norm_callee(call[:j])
            done.append(Outcome('diverge', None, st, callee))
            return []
        raise Unsupported('terminator ' + t)

    def concrete_branch(self, st, val, arms):
        for k, bb in arms:
            if k == val:
                return [(st, bb)]
        for k, bb in arms:
            if k is None:
                return [(st, bb)]
        return []


VARIANT_IDX = {'None': 0, 'Some': 1, 'Ok': 0, 'Err': 1, 'Continue': 0, 'Break': 1, 'Ref': 0, 'Owned': 1,
               'Occupied': 0, 'Vacant': 1, 'Less': -1, 'Equal': 0, 'Greater': 1,
               'Stage': 0, 'Group': 1, 'NewStage': 2, 'Single': 1, 'Multiple': 2}


def variant_index(agg):
    return VARIANT_IDX.get(agg.variant)


def norm_struct(s):
    s = re.sub(r"'\w+", "'_", s)
    s = re.sub(r'::<.*$', '', s)
    return s.strip()


def as_seq(v):
    if isinstance(v, SeqV):
        return v.seq
    return f_seqof(to_term(v))


def find_assign(stmt):
    depth = 0
    for i in range(len(stmt) - 2):
        ch = stmt[i]
        if ch in '([{': depth += 1
        elif ch in ')]}': depth -= 1
        elif depth == 0 and stmt[i:i + 3] == ' = ':
            return i
    return -1


# ------------------------------------------------------------------------------------------------
# proof obligations: z3 decides, cvc5 cross-checks the same SMT-LIB text

class Prover:
    def __init__(self):
        self.queries = []      # (name, smt2 text, z3 verdict)
        self.z3_time = 0.0
        self.unknown = []

    def valid(self, name, claim, assumptions=()):
        """True iff assumptions => claim is valid (negation unsat)."""
        s = z3.Solver()
        s.set('timeout', 20000)
        s.add(*assumptions)
        s.add(z3.Not(claim))
        t0 = time.time()
        r = s.check()
        self.z3_time += time.time() - t0
        self.queries.append((name, s.to_smt2(), str(r)))
        if r == z3.unknown:
            self.unknown.append(name)
        return r == z3.unsat

    def cross_check(self, limit=None):
        """Re-decides every recorded query with cvc5; returns list of disagreements."""
        bad = []
        n = 0
        t0 = time.time()
        for name, smt, verdict in self.queries[:limit]:
            txt = '(set-logic ALL)\n' + smt.replace('(check-sat)', '') + '\n(check-sat)\n'
            try:
                p = subprocess.run(['cvc5', '--lang', 'smt2', '--strings-exp', '--tlimit=20000'], input=txt, text=True,
                                   stdout=subprocess.PIPE, stderr=subprocess.STDOUT, timeout=60)
                out = p.stdout.strip().split('\n')[-1] if p.stdout.strip() else 'error'
                if '(error' in p.stdout:
                    out = 'error: ' + p.stdout.strip()[:200]
            except Exception as e:   # noqa
                out = 'error: %s' % e
            n += 1
            if out != verdict:
                bad.append((name, verdict, out))
        return bad, n, time.time() - t0
