"""Replay of an E2 finding: re-runs the symbolic execution behind the recorded obligation group on the
current tree, prints the obligations of that group that fail now, and runs the native confirmation test
where one exists. Exit code 1 if the group still fails, 0 if it holds now."""
import json, sys
from . import mirchecks as C


def replay(rec):
    pid, key = rec['property'], rec['key']
    ctx = C.Ctx(pid)
    for title, fn in C.SPECS.get(pid, []):
        try:
            fn(ctx)
        except Exception as e:      # noqa
            print('INCONCLUSIVE: %s: %s' % (title, e))
    failed = [o for o in ctx.obligations if not o['ok'] and o['key'] == key]
    held = [o for o in ctx.obligations if o['ok'] and o['key'] == key]
    print('property %s, obligation group "%s": %d obligations hold, %d fail on the current tree' % (pid, key, len(held), len(failed)))
    for o in failed:
        print('  FAILS: %s' % o['name'])
        if o['detail']:
            print('         %s' % o['detail'][:600])
    status, text = C.confirm_native(pid, key)
    print('native confirmation: %s' % status)
    if status != 'none':
        print(text[-1500:])
    return 1 if failed else 0
