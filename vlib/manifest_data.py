"""Hand-kept MANIFEST content (tools/gen_manifest.py turns it into MANIFEST.json)."""

HOOKS = {
    'guard': 'cargo feature `verif-hooks` of shred',
    'enable': 'the harness crates depend on shred = { path = "/repo", default-features = false, features = ["verif-hooks", "parallel"] }',
    'baseline_off_cmd': 'cd /repo && cargo test --workspace --no-fail-fast --offline',
    'source_commits': ['e8fb277'],
    'add_only': True,
}

ENGINES = [
    {'name': 'E1 kani-step', 'path': '/verif/kani', 'serves_properties': ['C03'],
     'kind_free_text': 'Kani 0.68 / CBMC 6.11 bounded model checking of the real planner/executor functions from symbolic pre-states of concrete shape; counterexamples extracted with concrete playback and replayed natively (/verif/replay) on the real dependency set'},
    {'name': 'E2 mir-smt', 'path': '/verif/mir', 'serves_properties': [],
     'kind_free_text': 'symbolic execution of the nightly MIR dump of the current tree into SMT (z3, cvc5 cross-check) for loop-free generic glue code, parametric in the type parameters'},
]

KANI_NOTE = ('Trusted: Kani/CBMC/CaDiCaL; Vec-backed contract models of smallvec/arrayvec and the sequential rayon contract model under Kani '
             '(counterexamples are replayed on the real crates); representation invariant of the pre-state as listed in the evidence file. '
             'Bounded: only the listed shapes/resources/dependency patterns; unwinding assertions on.')

CHECKS = {
    'C03': {'engine': 'E1 kani-step', 'category': 'model_checking', 'design_ref': 'DESIGN.md §4 C03',
            'technique': 'bounded model checking (Kani/CBMC) of one inductive planner step from a symbolic pre-state',
            'text': 'For every table state of the listed concrete shapes with symbolic contents and every symbolic new system, the real insertion_target never answers with a stage in front of the barrier index; together with add_barrier setting the index to the current number of stages this gives max stage(pre-barrier systems) < min stage(post-barrier systems) by induction over registrations, for histories of any length within the shape bounds.',
            'note': KANI_NOTE},
}

UNDER_CONSTRUCTION = 'check under construction in this session; not claimed yet'
NOT_APPLICABLE = {p: UNDER_CONSTRUCTION for p in ['C01', 'C02', 'C04', 'C05', 'C06', 'C07', 'C08', 'C09', 'C10', 'C11', 'C12', 'C13', 'C16', 'C17', 'C18', 'C19', 'C20']}
NOT_APPLICABLE.update({
    'C14': 'needs unwinding semantics (catch_unwind, drop during unwind, rayon panic propagation); Kani/CBMC end a path at a panic and the MIR route would need std/rayon unwinding encoded - solver-based checking of the real code cannot reach it here',
    'C15': 'needs real threads, ThreadPool::spawn and blocking std::sync::mpsc receive; Kani has no thread model and a sequential stand-in would verify the stand-in, not shred',
})

NOTES = ('All checks: python3-vt run_check.py <id> quick|thorough. Exit 0 = held, 1 = VIOLATION line(s) (solver counterexample that replays natively), '
         '2 = INCONCLUSIVE (never counted as success). Known findings: known_findings.json. Design: DESIGN.md.')
