"""Hand-kept MANIFEST content (tools/gen_manifest.py turns it into MANIFEST.json)."""

HOOKS = {
    'guard': 'cargo feature `verif-hooks` of shred',
    'enable': 'the harness crates depend on shred = { path = "/repo", default-features = false, features = ["verif-hooks", "parallel"] }',
    'baseline_off_cmd': 'cd /repo && cargo test --workspace --no-fail-fast --offline',
    'source_commits': ['e8fb277'],
    'add_only': True,
}

ENGINES = [
    {'name': 'E1 kani-step', 'path': '/verif/kani', 'serves_properties': ['C01', 'C02', 'C03', 'C04', 'C05', 'C06', 'C07', 'C08', 'C09', 'C10', 'C11', 'C12', 'C13', 'C16', 'C18', 'C19'],
     'kind_free_text': 'Kani 0.68 / CBMC 6.11 bounded model checking of the real planner/executor functions from symbolic pre-states of concrete shape, and of the real World / SystemData API on an association-list model of the resource map; counterexamples extracted with concrete playback and replayed natively (/verif/replay) on the real dependency set'},
    {'name': 'E2 mir-smt', 'path': '/verif/mir', 'serves_properties': ['C01', 'C02', 'C03', 'C04', 'C05', 'C06', 'C07', 'C08', 'C09', 'C10', 'C11', 'C12', 'C13', 'C15', 'C16', 'C17', 'C18', 'C19', 'C20'],
     'kind_free_text': 'symbolic execution of the nightly MIR dump of the current tree into SMT (z3, cvc5 cross-check) for loop-free generic glue code, parametric in the type parameters'},
]

KANI_NOTE = ('Trusted: Kani/CBMC/CaDiCaL; Vec-backed contract models of smallvec/arrayvec, an association-list contract model of ahash::AHashMap and the sequential rayon contract model under Kani '
             '(counterexamples are replayed on the real crates); representation invariant of the pre-state as listed in the evidence file. '
             'Bounded: only the listed shapes/resources/dependency patterns; unwinding assertions on.')

MIR_NOTE = ('Trusted: rustc nightly -Zunpretty=mir (debug-assertions off) as the semantics of the source, the MIR interpreter of vlib/mir.py (unknown constructs abort with INCONCLUSIVE), z3 (every verdict re-decided by cvc5). '
            'Callees that are type parameters / third-party code are uninterpreted; loops unrolled 3 times. A function whose body differs from the reviewed baseline (mir/baseline) but whose canonical summary (vlib/canon.py) equals the baseline\'s is judged on the baseline body.')
BOTH_NOTE = KANI_NOTE + ' ' + MIR_NOTE

STEP_T = 'bounded model checking (Kani/CBMC) of one inductive planner step from a symbolic pre-state'
EXEC_T = 'bounded model checking (Kani/CBMC) of the real executor on concrete layouts against a nondeterministic rayon contract model'
MIR_T = 'symbolic execution of the MIR into SMT (z3, cvc5 cross-check)'
WORLD_T = 'bounded model checking (Kani/CBMC) of the real World API (real atomic_refcell cells, association-list model of the map)'


def chk(engine, cat, ref, tech, text, note):
    return {'engine': engine, 'category': cat, 'design_ref': ref, 'technique': tech, 'text': text, 'note': note}


CHECKS = {
    'C01': chk('E1 kani-step', 'model_checking', 'DESIGN.md §4 C01', STEP_T + '; ' + EXEC_T,
               'Step: for every table state of the listed shapes (symbolic resource ids, times, dependencies) the real insertion_target never opens a group next to, or joins a group while conflicting with another group of, a stage (W/W, W/R, R/W on full ResourceIds, harness-side oracle). Commit: the real insert stores every declared read and write in the chosen slot. Executor: on the rayon contract model only systems of different groups of one stage share a parallel region; stages never do. By induction: no two conflicting systems may overlap, within the bounds.', KANI_NOTE),
    'C02': chk('E1 kani-step', 'model_checking', 'DESIGN.md §4 C02', STEP_T + '; ' + EXEC_T + '; ' + MIR_T,
               'Step: every dependency of the new system sits in a strictly earlier stage or earlier in the very group it joins (0,1,2 distinct,2 equal dependencies; also in front of a barrier). Executor: stage order and in-group order are the run order. E2: DispatcherBuilder::add hands exactly the ids stored under the dependency names to insert and resolves them before the new name is recorded.', BOTH_NOTE),
    'C03': chk('E1 kani-step', 'model_checking', 'DESIGN.md §4 C03', STEP_T + '; ' + MIR_T,
               'For every table state of the listed shapes and every new system the real insertion_target never answers with a stage in front of the barrier index; E2: the stage search runs over the literal range barrier..number_of_stages, add_barrier sets the index to the current number of stages and the builder-level add_barrier forwards unconditionally. By induction max stage(pre-barrier) < min stage(post-barrier); the executor part shows stages never overlap.', BOTH_NOTE),
    'C04': chk('E1 kani-exec', 'model_checking', 'DESIGN.md §4 C04', EXEC_T + '; ' + MIR_T,
               'Executor harness: on every listed layout (incl. a full group of 5, three stages, thread-local systems, a batch with 0/1/2 inner dispatches) every system runs exactly once per dispatch call of every kind, for two successive calls; the rayon contract (each job once) is the stated assumption. Commit harness: one insert adds exactly one id and one boxed system to the same slot. E2: the fan-out functions are "one call per item, nothing else" for 0..3 items, MultiDispatcher::run dispatches exactly plan() times; the async dispatcher (a third way to run the same plan) takes the state back on every accessor, spawns one job that runs every stage once in order, and wait runs each thread-local system once after the state is back on every path.', BOTH_NOTE),
    'C05': chk('E1 kani-exec', 'model_checking', 'DESIGN.md §4 C05', EXEC_T + '; ' + STEP_T + '; ' + MIR_T,
               'REDUCED claim: on the same built dispatcher the partial order induced by dispatch_par under the rayon contract and the total order of dispatch_seq agree on every pair that is not "same region, different job", and those pairs are the non-conflicting ones by C01. The isolation premise is re-checked (planner step fleet, commit part of insert); without `parallel`, dispatch is dispatch_seq and the placement code is byte-identical. Not decided: commutation of non-conflicting steps on the real World under real interleavings.', BOTH_NOTE),
    'C06': chk('E2 mir-smt', 'other', 'DESIGN.md §4 C06', MIR_T + '; %s: borrow state after fetch = declared access' % WORLD_T,
               'For all 26 tuple impls x setup/fetch/reads/writes, Read/Write/Option forms, unit, PhantomData, StaticAccessor, the blanket DynamicSystemData, the setup handlers and 7 derive samples (named, tuple, extra lifetimes, generics+where, nesting 3): reads/writes are exactly the concatenation of the members\' (z3 sequence equality), fetch/setup call every member exactly once on the caller\'s world and store member i at field i; leaves borrow exactly the cell of T shared resp. exclusive. Parametric in the member types: holds for every composition.', MIR_NOTE),
    'C07': chk('E2 mir-smt', 'other', 'DESIGN.md §4 C07', MIR_T,
               'add_batch: on its single path the accessor\'s reads are fetch_all_reads(inner) ++ controller reads, writes likewise (z3 sequence equality), only sort/dedup touch them, the wrapper is created from that accessor and the inner dispatcher built from the inner builder and registered through the ordinary add; the wrapper reports exactly that accessor and fetches nothing. Depth follows because a nested batch is an ordinary system of the inner builder.', MIR_NOTE),
    'C10': chk('E1 kani-step', 'model_checking', 'DESIGN.md §4 C10', STEP_T + '; ' + EXEC_T,
               'Step: whenever the real insertion_target skips a stage at or after the barrier, that stage holds a conflicting group or a dependency sits in it or later (property verbatim), for every listed shape, barrier, and dependency pattern incl. dependencies in front of a barrier and the same name twice. max_threads equals the widest stage of the executed layout on every exec layout.', KANI_NOTE),
    'C11': chk('E1 kani-exec', 'model_checking', 'DESIGN.md §4 C11', EXEC_T + '; ' + MIR_T,
               'REDUCED claim (no liveness): every group of a stage is a distinct job of ONE parallel for_each region inside ONE install on the dispatcher\'s pool; the default pool is built without an explicit thread count; the batch\'s inner dispatcher uses the same shared pool handle. Not decided: that real rayon overlaps the jobs.', BOTH_NOTE),
    'C12': chk('E1 kani-exec', 'model_checking', 'DESIGN.md §4 C12', EXEC_T + '; ' + MIR_T,
               'Executor harness: thread-local systems run after all ordinary ones, in registration order, outside the pool, only in dispatch / dispatch_thread_local; try_into_sendable is Ok exactly for 0 thread-local systems and preserves the layout. E2: dispatch = parallel part then thread-local loop; AsyncDispatcher::wait takes the state back and then runs each thread-local system once on every path (no early return), and no other step of the async hand-over (accessors, poll, dispatch, job, build_async) touches the thread-local list. Known finding KF1 (add_batch of a builder with thread-local systems) is reported as KNOWN-FINDING.', BOTH_NOTE),
    'C13': chk('E1 kani-exec', 'model_checking', 'DESIGN.md §4 C13', EXEC_T + '; ' + MIR_T,
               'Executor harness: setup and dispose reach every ordinary, thread-local and batched system exactly once on every listed layout. E2: the fan-out functions, the blanket RunNow impl and the batch wrapper forward setup/dispose exactly once; DefaultProvider::setup is entry().or_insert_with(default) and nothing else; PanicHandler / Option setups are empty; AsyncDispatcher::setup and the async hand-over steps (state back before anything else) likewise.', BOTH_NOTE),
    'C18': chk('E1 kani-step', 'model_checking', 'DESIGN.md §4 C18', STEP_T + '; ' + MIR_T,
               'Totality: every reachable panic (unwrap, overflow, indexing, group capacity) inside insertion_target/find_conflict/remove_ids/improves_balance and the commit is a CBMC check on every listed shape, and a joined group always has room; by induction no well-formed sequence panics. E2: add panics exactly on an unknown dependency or a reused non-empty name, quoting it, before anything is inserted; the empty name never touches the map; a fresh name is recorded exactly once, keyed by an owned copy of the name as given, with the id handed to insert; a rejected registration leaves the name map as it was; has_system / contains are one lookup in that same map under the name as given.', BOTH_NOTE),
}

CHECKS.update({
    'C08': chk('E2 mir-smt', 'other', 'DESIGN.md §4 C08', MIR_T + '; ' + WORLD_T,
               'REDUCED claim (access-path logic): for try_fetch / try_fetch_mut the solver enumerates exactly three outcomes - lookup absent -> None, try_borrow(_mut) Err -> panic, Ok -> a guard that owns exactly that borrow of the cell looked up under ResourceId::new::<T>(), shared resp. exclusive; the by-id forms check the type id first, look up under that id, and on a present resource take the panicking borrow()/borrow_mut(); fetch/fetch_mut panic when absent; Fetch::clone is one more shared borrow; the guards have no Drop impl of their own; the meta iterators borrow through the cell. The shared-xor-exclusive state machine itself is atomic_refcell\'s (assumed).', MIR_NOTE),
    'C09': chk('E2 mir-smt', 'other', 'DESIGN.md §4 C09', MIR_T + '; ' + WORLD_T,
               'REDUCED claim: assert_same_type_id returns iff the type id of R equals the type id of the id passed (two outcomes, no other branch); insert_by_id / remove_by_id / try_fetch(_mut)_by_id call it first and access the map under that very id, so a mismatching call panics before the world is touched; insert/remove/has_value/entry/get_mut use ResourceId::new of their own type argument, so a value of type R only ever sits under R\'s id (precondition of the unchecked downcasts). Map laws are std HashMap\'s (assumed).', MIR_NOTE),
    'C15': chk('E2 mir-smt', 'other', 'DESIGN.md §4 C15 / §5', MIR_T,
               'REDUCED claim (hand-over protocol, not interleavings): the world and the stages are either in the dispatcher (Data::Inner) or owned by exactly one spawned job (Data::Rx); the job runs every stage exactly once in order on that world and sends the state back afterwards on every path; dispatch, wait, wait_without_tl, world, world_mut, res, mut_res and setup all start with Data::inner / Data::sender, which block on Receiver::recv until the state is back (so a second dispatch cannot start before the first is complete, and what these calls return is observed after every background system finished); running() uses only the non-blocking poll, which answers "here" exactly when the state is here or try_recv delivered it; thread-local systems run only in wait, on the caller, after the state is back. The happens-before itself is the documented contract of std::sync::mpsc and ThreadPool::spawn (assumption).',
               MIR_NOTE + ' The cross-thread ordering is NOT explored: it follows from the protocol facts above under the std::sync::mpsc contract.'),
    'C16': chk('E2 mir-smt', 'other', 'DESIGN.md §4 C16', MIR_T + '; bounded model checking (Kani/CBMC) of Par::with and of a tree run',
               'For all H, T (uninterpreted): Seq::run = head.run then tail.run; Par::run = exactly one join of (head job, tail job) (pool.join from outside the pool, plain join inside), each job runs its child once on the same world and pool; reads/writes/setup of both node kinds reach head then tail; with()/new() keep every child; leaves forward to the accessor and run_now. By structural induction: every tree shape. Par::with in a debug-assertions build (separate MIR dump): returns iff none of node-W/child-R, node-W/child-W, node-R/child-W intersects, panics otherwise. E1 (Kani): Par::with with symbolic leaf access sets panics iff the new child conflicts (two harness families), and a seq/par tree runs every leaf once in seq order with par children in distinct jobs on the rayon contract model.', BOTH_NOTE),
    'C17': chk('E2 mir-smt', 'other', 'DESIGN.md §4 C17', MIR_T,
               'REDUCED claim: register: new type -> index := old size, vtable_fns and tys grow by one (attach_vtable::<T,R>, TypeId of R); known type -> nothing grows, the function at the stored index is replaced. get/get_mut: Some iff the index map has the dynamic type id, the function stored at that index is applied to the address of that resource. attach_vtable returns iff the cast preserved the address, else panics. MetaIter(Mut)::next walks tys in order from self.index, skips absent types, borrows shared resp. exclusive and uses the vtable function stored at the index of the type id just read.', MIR_NOTE),
    'C19': chk('E1 kani-step', 'model_checking', 'DESIGN.md §4 C19', 'relational bounded model checking (Kani/CBMC) of insertion_target under a solver-chosen resource permutation; ' + MIR_T,
               'Relational harness: two table states of the same shape related by a solver-chosen permutation of the 6 resource ids (across both static types and the dynamic ids), with solver-chosen orders of the 2-element read/write lists, get the same target from the real insertion_target. Commit harness + E2: insert stores exactly the declared ids (sort/dedup only) and DispatcherBuilder::add hands only ids, never names, to the planner. The MIR bodies of the placement functions are identical with and without the `parallel` feature. No source of nondeterminism is reachable from placement.', BOTH_NOTE),
    'C20': chk('E2 mir-smt', 'other', 'DESIGN.md §4 C20', MIR_T,
               'REDUCED claim: write_par_seq has no panicking path of its own and does not unwrap the name lookup; it walks self.ids stage by stage, group by group, system by system (each inner loop iterates the item just yielded), looks every system up once, prints a named system as its name with space/dash/slash replaced and an unnamed one as a placeholder, one line per system plus two bracket lines per stage/group/plan; Debug for the builder prints its own tables with its own name map, print_par_seq formats exactly this builder through that impl and prints it (no condition, nothing else); the name map that is printed from is only written by add: once per fresh name, under the name as given, never on a rejected registration. That ids and the executed list are in lock-step is C04.', MIR_NOTE),
})

UNDER_CONSTRUCTION = 'check under construction in this session; not claimed yet'
NOT_APPLICABLE = {}
NOT_APPLICABLE.update({
    'C14': 'needs unwinding semantics (catch_unwind, drop during unwind, rayon panic propagation); Kani/CBMC end a path at a panic and the MIR route would need std/rayon unwinding encoded - solver-based checking of the real code cannot reach it here',
})

NOTES = ('All checks: python3-vt run_check.py <id> quick|thorough. Exit 0 = held, 1 = VIOLATION line(s) (solver counterexample that replays natively), '
         '2 = INCONCLUSIVE (never counted as success). Known findings: known_findings.json. Design: DESIGN.md.')
