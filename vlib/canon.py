"""Canonical symbolic summaries: used to show that a function whose *shape* changed still behaves like the
reviewed baseline version of the same function (so that behaviour-preserving refactorings do not raise
alarms). The executor of mir.py is extended by semantic models of a few std combinators and by inlining:

  * crate-local callees that the baseline does not know (helpers extracted by a refactoring) are inlined;
  * closures handed to a modelled combinator are inlined at the point where the combinator calls them;
  * Option / Result combinators and the `?` operator become explicit branches on the discriminant of
    their receiver, with the same payload terms a `match` produces;
  * `for_each` is the loop it abbreviates; creating a slice iterator is one canonical event however it is spelt;
  * `Deref`/`DerefMut` of Vec / SmallVec / ArrayVec is the identity on references.

Two functions are *canonically equivalent* when their sets of path signatures (external events with their
arguments, branch decisions, outcome, returned value, writes through pointers) are equal up to renaming of
fresh results. Equivalence is only ever used to replace the current body by the baseline body before a
specification is evaluated; it never makes a failed obligation pass by itself.
"""
import re
import z3
from . import mir as M
from .mir import T, Cst, Agg, Ref, SeqV, DiscV, Place, V, to_term, Event, Outcome, Unsupported, f_disc

MAX_DEPTH = 4

# (ResourceId::new::<X>() and TypeId::of::<X>() are pure and have one canonical value per X: the value is what counts)
NOISE = re.compile(r"^(world::)?ResourceId::new::<|^TypeId::of::<|^drop$|core::fmt::|^Arguments::<|::type_name::<|tynm::|^std::hint::|must_use::<|core::panicking::panic_fmt|^panic_fmt$|eprint|std::io::")


def canon_name(callee):
    """`x.into()` resolves through std's blanket impl to `From::from`: one spelling for both"""
    m = re.match(r'^<(.+) as Into<(.+)>>::into$', callee)
    if m:
        return '<%s as From<%s>>::from' % (m.group(2), m.group(1))
    return callee


def closure_loc(kind):
    # 'closure@src/world/mod.rs:455:37' (mir.rvalue strips the end position)
    return kind[len('closure@'):] if kind.startswith('closure@') else None


def fn_key(f):
    return (re.sub(r':\d+:\d+: \d+:\d+', '', f.impl_header), f.short)


class Program:
    def __init__(self, fns, known_names, other_keys=None):
        self.fns = fns
        self.known = known_names          # short names of functions the baseline has (not inlined: specs know them) ...
        self.other_keys = other_keys      # ... unless the program it is compared with has no such function (helper renamed / moved)
        self.aggressive = False           # second attempt of `equivalent`: inline every crate-local callee that resolves
        self.by_closure = {}
        self.by_short = {}
        for f in fns:
            if f.params:
                m = re.match(r'^&?(?:mut )?\{closure@([^}]*)\}$', f.params[0][1])
                if m and '{closure#' in f.name:
                    self.by_closure[re.sub(r': \d+:\d+$', '', m.group(1))] = f
            self.by_short.setdefault(f.short, []).append(f)

    def resolve(self, callee):
        """crate-local function for a callee string like `DispatcherBuilder::<'_, '_>::helper` or `helper::<H>`"""
        c = re.sub(r'::<[^()]*>$', '', callee)          # trailing generic args
        name = c.split('::')[-1]
        if not re.match(r'^\w+$', name):
            return None
        cands = [f for f in self.by_short.get(name, []) if '{closure#' not in f.name]
        # the path in front of the name must be compatible with where the function lives
        owner = re.sub(r"::<.*?>", '', '::'.join(c.split('::')[:-1]))
        if owner:
            last = owner.split('::')[-1]
            if not re.match(r'^\w+$', last):
                return None
            cands = [f for f in cands if re.search(r'(?<![\w])%s(?![\w])' % re.escape(last), f.impl_header + ' ' + f.name)]
        if len(cands) > 1 and not callee.startswith('<'):
            # `Type::method` (no `<T as Trait>`): an inherent method wins over trait impls of the same name
            inh = [f for f in cands if not re.search(r'^\S+: impl(<.*?>)? [^{]* for ', f.impl_header or '')]
            if len(inh) == 1:
                cands = inh
        if len(cands) != 1:
            return None
        f = cands[0]
        if name in self.known and not self.aggressive and (self.other_keys is None or fn_key(f) in self.other_keys):
            return None
        return f


class CanonExec(M.Exec):
    def __init__(self, fn, program, loop_bound=2, stats=None, frame='', depth=0, param_values=None):
        super().__init__(fn, loop_bound=loop_bound, stats=stats, param_values=param_values, frame=frame)
        self.program = program
        self.depth = depth
        self._n = 0

    # ---- events carry a rendering of what their arguments point to at the time of the call
    def render(self, v, st, depth=0):
        if depth > 6:
            return '...'
        if isinstance(v, Ref) and v.place.base[0] == 'L':
            try:
                inner = self.read(v.place, st)
            except Exception:
                inner = None
            if inner is not None and not (isinstance(inner, T) and str(inner.term).startswith('uninit_')):
                return 'ref{%s}' % self.render(inner, st, depth + 1)
        if isinstance(v, Agg):
            return '%s%s{%s}' % (v.kind if not v.kind.startswith('closure@') else 'closure', '#%s' % v.variant if v.variant is not None else '',
                                 ', '.join(self.render(x, st, depth + 1) for x in v.fields))
        try:
            return str(to_term(v)).replace('\n', ' ')
        except Exception:
            return repr(v)

    def make_event(self, callee, argv, res, st):
        e = Event(callee, [to_term(x) for x in argv], res, argv)
        e.snap = [self.render(x, st) for x in argv]
        e.local_ref = [isinstance(x, Ref) and x.place.base[0] == 'L' for x in argv]
        e.closure_beh = {}
        for i, x in enumerate(argv):
            if isinstance(x, Agg) and x.kind.startswith('closure@'):
                cfn = self.program.by_closure.get(closure_loc(x.kind))
                if cfn is not None:
                    e.closure_beh[i] = closure_behaviour(cfn, x, self.program, self.stats, st, e.snap[i], self.params)
        # an uninterpreted callee may write through a `&mut local`: afterwards the local holds "what that call left there"
        for i, x in enumerate(argv):
            if isinstance(x, Ref) and getattr(x, 'mut', False) and x.place.base[0] == 'L':
                self.write(x.place, T(M.mk_fn('left_by', 2)(res, M.cst_term('arg%d' % i))), st)
            elif isinstance(x, Agg) and x.kind.startswith('closure@'):
                # ... and so may a closure it is handed, through what that closure captured by `&mut`
                for j, fv in enumerate(x.fields):
                    if isinstance(fv, Ref) and getattr(fv, 'mut', False) and fv.place.base[0] == 'L':
                        nm = x.names[j] if x.names and j < len(x.names) else 'cap%d' % j
                        self.write(fv.place, T(M.mk_fn('left_by', 2)(res, M.cst_term('arg%d.%s' % (i, nm)))), st)
        return e

    # ---- helpers
    def fresh_frame(self):
        self._n += 1
        return '%sf%d_%d:' % (self.frame, self.depth + 1, self._n)

    def rename_callee(self, callee):
        for k, v in getattr(self, 'tysubst', {}).items():
            callee = re.sub(r'(?<![\w:])%s(?![\w])' % re.escape(k), v, callee)
        return canon_name(callee)

    def inline(self, fn, argvals, st, done, tysubst=None):
        """Runs `fn` as a nested frame from state st. Returns [(state, value)] for returning paths; diverging /
        bound paths are recorded in `done`."""
        if self.depth >= MAX_DEPTH:
            raise Unsupported('inlining depth')
        frame = self.fresh_frame()
        pv = {}
        for (loc, ty), v in zip(fn.params, argvals):
            if ty.startswith('&') and isinstance(v, Agg):
                # by-reference parameter bound to a value we hold structurally (closure environment)
                tmp = Place(('L', frame + 'env' + loc))
                self.write(tmp, v, st)
                v = Ref(tmp)
            pv[loc] = v
        sub = CanonExec(fn, self.program, self.loop_bound, self.stats, frame, self.depth + 1, pv)
        for k_, v_ in self.params.items():      # places of enclosing frames stay readable through references
            sub.params.setdefault(k_, v_)
        sub.tysubst = dict(getattr(self, 'tysubst', {}))
        sub.tysubst.update(tysubst or {})
        outs = sub.run(st)
        res = []
        for o in outs:
            if o.kind == 'return':
                res.append((o.st, o.value))
            else:
                done.append(o)
        return res

    def apply(self, f, args, st, done):
        """Calls the function value f (closure aggregate, fn item, opaque) with args."""
        if isinstance(f, Ref):
            f = self.read(f.place, st)
        if isinstance(f, Agg) and f.kind.startswith('closure@'):
            fn = self.program.by_closure.get(closure_loc(f.kind))
            if fn is not None:
                return self.inline(fn, [f] + list(args), st, done)
        if isinstance(f, Cst) and '{closure@' in f.text:      # capture-less closure: a zero-sized constant
            mloc = re.search(r'\{closure@([^}]*)\}', f.text)
            fn = self.program.by_closure.get(re.sub(r': \d+:\d+$', '', mloc.group(1))) if mloc else None
            if fn is not None:
                return self.inline(fn, [Agg('closure@' + mloc.group(1), [])] + list(args), st, done)
        if isinstance(f, Cst) and f.text.startswith('fn '):
            callee = canon_name(f.text[3:])
            fn = self.program.resolve(callee)
            if fn is not None:
                return self.inline(fn, list(args), st, done)
            res = M.fresh('ret')
            st.trace.append(Event(callee, [to_term(a) for a in args], res, list(args)))
            return [(st, T(res))]
        res = M.fresh('ret')
        st.trace.append(Event('call_value', [to_term(f)] + [to_term(a) for a in args], res, [f] + list(args)))
        return [(st, T(res))]

    def split(self, v, st, yes_variant, no_variant):
        """Forks on the discriminant of an Option/Result value. Returns (state_yes | None, payload, state_no | None, payload_no)."""
        if isinstance(v, Agg) and v.variant is not None:
            if v.variant == yes_variant:
                return st, (v.fields[0] if v.fields else Cst('()')), None, None
            return None, None, st, (v.fields[0] if v.fields else Cst('()'))
        t = to_term(v)
        who = f_disc(t)
        yes_idx = M.VARIANT_IDX[yes_variant]
        no_idx = M.VARIANT_IDX[no_variant]
        arms = self.branch(st, who, [(yes_idx, 'yes'), (no_idx, 'no')], None)
        sy = sn = None
        for q, tag in arms:
            if tag == 'yes':
                sy = q
            else:
                sn = q
        py = T(M.f_fld(M.mk_fn('as_' + yes_variant, 1)(t), 0))
        pn = T(M.f_fld(M.mk_fn('as_' + no_variant, 1)(t), 0))
        return sy, py, sn, pn

    # branch() of the base class looks at self.fn.blocks for 'unreachable' arms: tags are no block names
    def branch(self, st, who, arms, done):
        real = [a for a in arms if a[1] in self.fn.blocks]
        if len(real) == len(arms):
            return super().branch(st, who, arms, done)
        out = []
        import time as _t
        for k, tag in arms:
            c = who == k
            s = z3.Solver(); s.set('timeout', 20000); s.add(*st.cond); s.add(c)
            t0 = _t.time(); r = s.check()
            self.stats['feasibility_queries'] += 1; self.stats['solver_s'] += _t.time() - t0
            if r == z3.sat:
                q = st.fork(); q.cond.append(c); q.decisions.append((str(who), k)); out.append((q, tag))
        return out

    # ---- the models
    def call_model(self, callee, argv, st, done):
        c = callee
        # Deref / DerefMut of the sequence containers: identity on the reference
        if re.match(r"^<(Vec|SmallVec|ArrayVec|smallvec::SmallVec|arrayvec::ArrayVec)<.*> as (std::ops::)?Deref(Mut)?>::deref(_mut)?$", c) and len(argv) == 1:
            return [(st, argv[0])]
        # Deref / DerefMut of std smart pointers and lock guards: a pure accessor, the same target for both spellings
        if re.match(r"^<(std::sync::)?(Arc|Rc|Box|RwLockReadGuard|RwLockWriteGuard|MutexGuard|std::sync::RwLockReadGuard|std::sync::RwLockWriteGuard|std::sync::MutexGuard)<.*> as (std::ops::)?Deref(Mut)?>::deref(_mut)?$", c) and len(argv) == 1:
            x = argv[0]
            try:
                if isinstance(x, Ref):
                    inner = self.read(x.place, st)
                    x = inner if isinstance(inner, (T, Cst)) else x
            except Exception:
                pass
            return [(st, T(M.mk_fn('target', 1)(to_term(x))))]
        # creating a slice iterator, however it is spelt
        if len(argv) == 1 and (re.match(r"^<&(mut )?(Vec|SmallVec|ArrayVec|smallvec::SmallVec|arrayvec::ArrayVec|\[).*as IntoIterator>::into_iter$", c)
                               or re.match(r"^(core|std)::slice::<impl \[.*\]>::iter(_mut)?$", c)):
            res = M.fresh('ret')
            e = Event('ITER', [to_term(argv[0])], res, argv)
            e.snap = [self.render(argv[0], st)]
            e.local_ref = [isinstance(argv[0], Ref) and argv[0].place.base[0] == 'L']
            st.trace.append(e)
            return [(st, T(res))]
        if re.match(r"^<std::ops::Range<usize> as IntoIterator>::into_iter$", c) and len(argv) == 1:
            return [(st, argv[0])]
        # Iterator::next on `&mut iter_local`: identify the iterator by its value, not by the local that holds it
        if re.search(r" as Iterator>::next$", c) and len(argv) == 1 and isinstance(argv[0], Ref):
            v = self.read(argv[0].place, st)
            res = M.fresh('ret')
            key = to_term(v) if isinstance(v, (T, Agg)) else to_term(argv[0])
            st.trace.append(Event(c, [key], res, argv))
            return [(st, T(res))]
        # for_each = loop { match next() { Some(x) => f(x), None => break } }
        m = re.match(r"^<(.*) as Iterator>::for_each::<.*>$", c)
        if m and len(argv) == 2:
            it, f = argv
            key = to_term(it)
            out = []
            states = [st]
            for k in range(self.loop_bound + 1):
                nxt = []
                for s0 in states:
                    res = M.fresh('ret')
                    s0.trace.append(Event('<%s as Iterator>::next' % m.group(1), [key], res, [it]))
                    sy, py, sn, _ = self.split(T(res), s0, 'Some', 'None')
                    if sn is not None:
                        out.append((sn, Cst('()')))
                    if sy is not None:
                        if k == self.loop_bound:
                            done.append(Outcome('bound', None, sy, 'for_each'))
                            continue
                        for s2, _v in self.apply(f, [py], sy, done):
                            nxt.append(s2)
                states = nxt
            return out
        # Option / Result combinators
        m = re.match(r"^TypeId::of::<(.*)>$", c)
        if m and not argv:
            return [(st, T(M.f_fld(M.id_of(m.group(1)), 0)))]
        # is_some / is_none / is_ok / is_err: the branch a `match` on the receiver takes
        m = re.match(r"^(Option|Result)::<.*?>::(is_some|is_none|is_ok|is_err)$", c)
        if m and len(argv) == 1:
            try:
                v = self.read(self.deref_place(argv[0]), st)
            except Exception:
                v = None
            if v is not None:
                yes, no = ('Some', 'None') if m.group(1) == 'Option' else ('Ok', 'Err')
                sy, _py, sn, _pn = self.split(v, st, yes, no)
                pos = m.group(2) in ('is_some', 'is_ok')
                out = []
                if sy is not None:
                    out.append((sy, Cst('true' if pos else 'false')))
                if sn is not None:
                    out.append((sn, Cst('false' if pos else 'true')))
                return out
        # Option::get_or_insert_with(&mut opt, f): keeps a value that is there, otherwise stores Some(f())
        m = re.match(r"^Option::<.*?>::get_or_insert_with::<.*>$", c)
        if m and len(argv) == 2:
            try:
                pl = self.deref_place(argv[0])
                cur = self.read(pl, st)
            except Exception:
                pl = None
            if pl is not None:
                sy, _py, sn, _pn = self.split(cur, st, 'Some', 'None')
                payload = Place(pl.base, pl.path + (('V', 'Some'), 0))
                out = []
                if sy is not None:
                    out.append((sy, Ref(payload, True)))
                if sn is not None:
                    for s2, v in self.apply(argv[1], [], sn, done):
                        self.write(pl, Agg('variant Option', [v], 'Some'), s2)
                        out.append((s2, Ref(payload, True)))
                return out
        m = re.match(r"^(Option|Result)::<.*?>::(map|and_then|unwrap_or_else|map_or_else|unwrap_or|ok|ok_or|unwrap|expect|is_some|is_none)(::<.*>)?$", c)
        if m and argv:
            ty, meth = m.group(1), m.group(2)
            yes, no = ('Some', 'None') if ty == 'Option' else ('Ok', 'Err')
            if meth in ('is_some', 'is_none'):
                return None
            sy, py, sn, pn = self.split(argv[0], st, yes, no)
            out = []
            def none_val():
                return Agg('variant Option', [], 'None')
            if meth == 'map':
                if sy is not None:
                    for s2, v in self.apply(argv[1], [py], sy, done):
                        out.append((s2, Agg('variant ' + ty, [v], yes)))
                if sn is not None:
                    out.append((sn, none_val() if ty == 'Option' else Agg('variant Result', [pn], 'Err')))
            elif meth == 'and_then':
                if sy is not None:
                    out += self.apply(argv[1], [py], sy, done)
                if sn is not None:
                    out.append((sn, none_val() if ty == 'Option' else Agg('variant Result', [pn], 'Err')))
            elif meth == 'unwrap_or_else':
                if sy is not None:
                    out.append((sy, py))
                if sn is not None:
                    out += self.apply(argv[1], [] if ty == 'Option' else [pn], sn, done)
            elif meth == 'map_or_else':
                if sy is not None:
                    out += self.apply(argv[2], [py], sy, done)
                if sn is not None:
                    out += self.apply(argv[1], [] if ty == 'Option' else [pn], sn, done)
            elif meth == 'unwrap_or':
                if sy is not None:
                    out.append((sy, py))
                if sn is not None:
                    out.append((sn, argv[1]))
            elif meth == 'ok':
                if sy is not None:
                    out.append((sy, Agg('variant Option', [py], 'Some')))
                if sn is not None:
                    out.append((sn, none_val()))
            elif meth == 'ok_or':
                if sy is not None:
                    out.append((sy, Agg('variant Result', [py], 'Ok')))
                if sn is not None:
                    out.append((sn, Agg('variant Result', [argv[1]], 'Err')))
            elif meth in ('unwrap', 'expect'):
                if sy is not None:
                    out.append((sy, py))
                if sn is not None:
                    done.append(Outcome('diverge', None, sn, 'panic:' + meth))
            return out
        # the ? operator
        m = re.match(r"^<(Option|Result)<.*> as (std::ops::)?Try>::branch$", c)
        if m and len(argv) == 1:
            yes, no = ('Some', 'None') if m.group(1) == 'Option' else ('Ok', 'Err')
            sy, py, sn, pn = self.split(argv[0], st, yes, no)
            out = []
            if sy is not None:
                out.append((sy, Agg('variant ControlFlow', [py], 'Continue')))
            if sn is not None:
                resid = Agg('variant Option', [], 'None') if m.group(1) == 'Option' else Agg('variant Result', [pn], 'Err')
                out.append((sn, Agg('variant ControlFlow', [resid], 'Break')))
            return out
        m = re.match(r"^<(Option|Result)<.*> as (std::ops::)?FromResidual<.*>>::from_residual$", c)
        if m and len(argv) == 1:
            if m.group(1) == 'Option':
                return [(st, Agg('variant Option', [], 'None'))]
            return None
        # helpers the baseline does not know: inline
        fn = self.program.resolve(c)
        if fn is not None and fn is not self.fn:
            sub = {}
            gen = re.search(r'::<(.*)>$', c)
            if gen:
                gargs = [g for g in M.split_top(gen.group(1)) if not g.startswith("'")]
                # generic parameter names of the helper: single capital letters in order of first use in its signature
                sig = ' '.join(t for _, t in fn.params) + ' ' + fn.ret
                names = []
                for t in re.findall(r'(?<![\w:])([A-Z][0-9]?)(?![\w])', sig):
                    if t not in names:
                        names.append(t)
                if len(names) == len(gargs):
                    sub = dict(zip(names, gargs))
            return self.inline(fn, argv, st, done, sub)
        return None


# ------------------------------------------------------------------------------------------------
# signatures

def _rename(text, table):
    def rep(m):
        k = m.group(0)
        if k not in table:
            kind = 'local' if k.startswith('local_') else 'uninit' if k.startswith('uninit_') else re.split(r'!', k)[0]
            n = sum(1 for v in table.values() if v.startswith(kind + '#'))
            table[k] = '%s#%d' % (kind, n)
        return table[k]
    text = re.sub(r'\b(?:ret|f|nullary)!\d+|\blocal_(?:f\d+_\d+:)*(?:env)?_\d+|\buninit_(?:f\d+_\d+:)*_\d+', rep, text)
    inv = {v: k for k, v in M._cst_ids.items()}
    text = re.sub(r'cst\((\d+)\)', lambda m: 'cst<%s>' % inv.get(int(m.group(1)), '?')[:80], text)
    text = re.sub(r'\{closure@[^}]*\}', '{closure}', text)
    text = re.sub(r'mk_closure_[A-Za-z0-9_]+', 'mk_closure', text)
    return text


_closure_sigs = {}


def closure_sig(fn, program, stats):
    k = id(fn)
    if k not in _closure_sigs:
        _closure_sigs[k] = '?'          # recursion guard
        try:
            outs = CanonExec(fn, program, stats=stats).run()
            import hashlib
            sigs = [path_signature(o, program, stats) for o in outs if o.kind != 'bound']
            if fn.ret.strip() == '()':
                sigs = [re.sub(r'\|[^|]*$', '|', x) if x.startswith('return') else x for x in sigs]
            body = '\n'.join(sorted(sigs))
            _closure_sigs[k] = hashlib.sha256(body.encode()).hexdigest()[:12]
        except Exception:
            _closure_sigs[k] = 'unsupported:%s' % fn.name[-40:]
    return _closure_sigs[k]


_closure_runs = {}
CLOSURE_DEPTH = [0]


def closure_behaviour(fn, val, program, stats, st=None, snap='', params=None):
    """What a closure handed to an uninterpreted callee does, given the values it captured and the state at the time
    of the call (captured references are read there): the raw (not yet alpha-renamed) path texts of its body run with
    its environment bound to `val`, in a canonical order. Capture order, and whether the body sits in the closure or
    in a helper it calls, do not show."""
    try:
        key = (id(fn), str(to_term(val)), snap)
    except Exception:
        return None
    if key in _closure_runs:
        return _closure_runs[key]
    if CLOSURE_DEPTH[0] >= 3:
        return None
    CLOSURE_DEPTH[0] += 1
    try:
        loc, ty = fn.params[0]
        st0 = st.fork() if st is not None else M.PathState()
        n_t, n_d = len(st0.trace), len(st0.decisions)
        st0.visits = {}
        ex = CanonExec(fn, program, stats=stats, frame='c%d:' % CLOSURE_DEPTH[0], depth=1)
        for k_, v_ in (params or {}).items():       # parameters of the enclosing function stay readable through captured references
            ex.params.setdefault(k_, v_)
        if ty.startswith('&'):
            tmp = Place(('L', 'c%d:env' % CLOSURE_DEPTH[0]))
            ex.write(tmp, val, st0)
            ex.params[ex.frame + loc] = Ref(tmp)
        else:
            ex.params[ex.frame + loc] = val
        # the closure's own arguments: fresh symbols named by position
        for i, (l2, _t2) in enumerate(fn.params[1:]):
            ex.params[ex.frame + l2] = T(z3.Const('carg%d' % (i + 1), V))
        outs = ex.run(st0)
        paths = []
        for o in outs:
            if o.kind == 'bound':
                continue
            raw = path_signature(o, program, stats, raw=True, skip=(n_t, n_d))
            if fn.ret.strip() == '()' and raw.startswith('return'):
                raw = re.sub(r'\|[^|]*$', '|', raw)
            # what the body leaves in the variables it captured by `&mut`
            eff = []
            for fv in val.fields:
                if isinstance(fv, Ref) and getattr(fv, 'mut', False) and fv.place.base[0] == 'L':
                    try:
                        eff.append('captured:=' + str(to_term(ex.read(fv.place, o.st))).replace('\n', ' '))
                    except Exception:
                        eff.append('captured:=?')
            raw += '|' + ' ; '.join(sorted(eff))
            paths.append((_rename(raw, {}), raw))
        paths.sort()
        res = ' || '.join(r for _k, r in paths)
    except Exception:
        res = None
    CLOSURE_DEPTH[0] -= 1
    _closure_runs[key] = res
    return res


def _arg_text(term, val, program, stats, beh=None, st=None):
    """closures handed to uninterpreted callees are part of the behaviour: render them by what their body does"""
    extra = ''
    if program is not None:
        loc = None
        if isinstance(val, Agg) and val.kind.startswith('closure@'):
            loc = closure_loc(val.kind)
            if loc in program.by_closure:
                if beh is None and st is not None:
                    beh = closure_behaviour(program.by_closure[loc], val, program, stats, st)
                if beh is not None:
                    return 'closure[[%s]]' % beh
        elif isinstance(val, Cst) and '{closure@' in val.text:
            mloc = re.search(r'\{closure@([^}]*)\}', val.text)
            loc = re.sub(r': \d+:\d+$', '', mloc.group(1)) if mloc else None
        if loc is not None and loc in program.by_closure:
            extra = '[body:%s]' % closure_sig(program.by_closure[loc], program, stats)
        elif isinstance(val, Cst):
            extra = '[%s]' % re.sub(r'\{closure@[^}]*\}', '{closure}', val.text)[:120]
    return str(term).replace('\n', ' ') + extra


def path_signature(o, program=None, stats=None, raw=False, skip=(0, 0)):
    table = {}
    ren = (lambda t, tb: t) if raw else _rename
    parts = []
    for e in o.trace[skip[0]:]:
        if NOISE.search(e.callee) or e.callee == 'ITER_DROP':
            continue
        vals = list(e.argvals) + [None] * (len(e.args) - len(e.argvals))
        snap = getattr(e, 'snap', None)
        texts = []
        for i, (a, v) in enumerate(zip(e.args, vals)):
            t = _arg_text(a, v, program, stats, getattr(e, 'closure_beh', {}).get(i))
            if t.startswith('closure[['):
                pass                         # the behaviour on the captured values says it all
            elif snap is not None and i < len(snap) and snap[i] != str(a).replace('\n', ' '):
                lr = getattr(e, 'local_ref', None)
                if lr and i < len(lr) and lr[i] and snap[i].startswith('ref{'):
                    t = snap[i]              # which local holds the value is a coding detail
                else:
                    t += '=' + snap[i]
            texts.append(ren(t, table))
        parts.append('%s(%s)' % (ren(re.sub(r"'\w+", "'_", e.callee), table), ', '.join(texts)))
    dec = ['%s=%s' % (ren(w.replace('\n', ' '), table), k) for w, k in o.st.decisions[skip[1]:]]
    heap = []
    for key, slots in sorted(o.st.store.items()):
        if key[0] != 'H':
            continue
        for pth, v in sorted(slots.items(), key=lambda kv: str(kv[0])):
            try:
                heap.append('%s%s:=%s' % (ren(key[1], table), pth, ren(str(to_term(v)).replace('\n', ' '), table)))
            except Exception:
                heap.append('%s%s:=?' % (key[1], pth))
    val = ''
    if o.kind == 'return' and o.value is not None:
        try:
            val = ren(_arg_text(to_term(o.value), o.value, program, stats, None, o.st).replace('\n', ' '), table)
        except Exception:
            val = repr(o.value)
    detail = 'panic' if (o.kind == 'diverge') else o.detail if o.kind == 'bound' else ''
    return '|'.join([o.kind, detail, ' ; '.join(parts), ' & '.join(dec), ' ; '.join(heap), re.sub(r'\s+', ' ', val)])


def summary(fn, program, stats):
    outs = CanonExec(fn, program, stats=stats).run()
    sigs = sorted(path_signature(o, program, stats) for o in outs if o.kind != 'bound')
    if fn.ret.strip() == '()':
        sigs = sorted(re.sub(r'\|[^|]*$', '|', x) if x.startswith('return') else x for x in sigs)     # unit: no value to compare
    return sigs


def equivalent(cur, cur_prog, base, base_prog, stats):
    """True iff the canonical summaries are equal. Unsupported constructs => False (no claim).
    Second attempt when they differ: inline every crate-local callee on both sides (a method that now delegates to a
    sibling the baseline also has is then compared by what the sibling does)."""
    try:
        a = summary(cur, cur_prog, stats)
        b = summary(base, base_prog, stats)
    except Exception:
        return False, None, None
    if a == b and len(a) > 0:
        return True, a, b
    saved = dict(_closure_runs), dict(_closure_sigs)
    try:
        cur_prog.aggressive = base_prog.aggressive = True
        _closure_runs.clear(); _closure_sigs.clear()
        a2 = summary(cur, cur_prog, stats)
        b2 = summary(base, base_prog, stats)
        if a2 == b2 and len(a2) > 0:
            return True, a2, b2
    except Exception:
        pass
    finally:
        cur_prog.aggressive = base_prog.aggressive = False
        _closure_runs.clear(); _closure_sigs.clear()
        _closure_runs.update(saved[0]); _closure_sigs.update(saved[1])
    return False, a, b
