"""E2 checks: specifications over the symbolic execution of /repo's current MIR (vlib/mir.py).

Every spec function receives a Ctx and registers obligations with ctx.ob(key, name, ok, detail).
`ok` comes from a z3 validity query (ctx.valid) wherever values are compared; shape facts (which
callees occur, in which order) are read off the enumerated paths.  A failed obligation is a
candidate violation; where a native confirmation program exists (confirm/), it is run before the
violation is reported.
"""
import json, os, re, shutil, subprocess, time
import z3
from . import mir as M
from .mir import T, Cst, Agg, Ref, SeqV, V, f_ref, f_deref, f_seqof, f_rid, SeqR, to_term, as_seq

VERIF = os.path.dirname(os.path.dirname(os.path.abspath(__file__)))
BUILD = os.path.join(VERIF, '.build', 'mir')
ENV = dict(os.environ, CARGO_NET_OFFLINE='true')

_x = z3.Const('x', V)
AXIOMS = []     # (reborrow `&*p` == p is applied syntactically in mir.to_term)


def dump_mir(kind):
    """Dumps MIR of /repo's current working tree. kind: default | nopar | derive"""
    os.makedirs(BUILD, exist_ok=True)
    out = os.path.join(BUILD, kind + '.mir')
    tdir = os.path.join(BUILD, 'target-' + kind)
    cwd = '/repo' if kind != 'derive' else os.path.join(VERIF, 'mir', 'derive_samples')
    # force the crate itself to be re-run: rustc prints MIR only when it really compiles
    for root in [os.path.join(tdir, 'debug', '.fingerprint')]:
        if os.path.isdir(root):
            for d in os.listdir(root):
                if d.startswith(('shred-', 'derive-samples-')) and not d.startswith('shred-derive-'):
                    shutil.rmtree(os.path.join(root, d), ignore_errors=True)
    cmd = ['cargo', '+nightly', 'rustc', '--offline', '--lib', '--target-dir', tdir]
    if kind == 'nopar':
        cmd += ['--no-default-features']
    cmd += ['--', '-Zunpretty=mir', '-C', 'debug-assertions=off']
    t0 = time.time()
    with open(out, 'w') as f:
        p = subprocess.run(cmd, cwd=cwd, stdout=f, stderr=subprocess.PIPE, text=True, env=ENV)
    if p.returncode != 0 or os.path.getsize(out) < 1000:
        if kind == 'derive' and p.returncode == 0:
            # dependency change only: force by touching nothing in /repo - clean sample crate instead
            shutil.rmtree(tdir, ignore_errors=True)
            with open(out, 'w') as f:
                p = subprocess.run(cmd, cwd=cwd, stdout=f, stderr=subprocess.PIPE, text=True, env=ENV)
        if p.returncode != 0 or os.path.getsize(out) < 1000:
            raise M.Unsupported('MIR dump (%s) failed: %s' % (kind, p.stderr[-800:]))
    return out, time.time() - t0


class Ctx:
    def __init__(self, pid):
        self.pid = pid
        self.prover = M.Prover()
        self.obligations = []       # dicts
        self.stats = {'feasibility_queries': 0, 'solver_s': 0.0}
        self.fn_sets = {}
        self.functions = []
        self.inconclusive = []
        self.dump_s = 0.0
        self._runs = {}

    def fns(self, kind='default'):
        if kind not in self.fn_sets:
            path, dt = dump_mir(kind)
            self.dump_s += dt
            self.fn_sets[kind] = M.parse_mir(path, '/repo' if kind != 'derive' else os.path.join(VERIF, 'mir', 'derive_samples'))
        return self.fn_sets[kind]

    def find(self, header_re, name, kind='default', optional=False):
        """Functions whose impl header (source text of the `impl ...` line) matches and whose last path segment is name."""
        out = [f for f in self.fns(kind) if f.short == name and re.search(header_re, f.impl_header or f.name)]
        if not out and not optional:
            raise M.Unsupported('function %s in impl /%s/ not found in the MIR dump' % (name, header_re))
        return out

    def one(self, header_re, name, kind='default'):
        fs = self.find(header_re, name, kind)
        if len(fs) != 1:
            raise M.Unsupported('%d functions match %s in /%s/' % (len(fs), name, header_re))
        return fs[0]

    def run(self, fn, loop_bound=3):
        k = (id(fn), loop_bound)
        if k not in self._runs:
            self._runs[k] = M.Exec(fn, loop_bound=loop_bound, stats=self.stats).run()
            self.functions.append(fn.name)
        return self._runs[k]

    def valid(self, name, claim, assumptions=()):
        return self.prover.valid(name, claim, list(AXIOMS) + list(assumptions))

    def ob(self, key, name, ok, detail=''):
        self.obligations.append({'key': key, 'name': name, 'ok': bool(ok), 'detail': detail})
        return bool(ok)


# ------------------------------------------------------------------------------------------------
# helpers

def calls(o, skip_drop=True):
    return [e for e in o.trace if not (skip_drop and e.callee == 'drop')]


def returns(outs):
    return [o for o in outs if o.kind == 'return']


def callee_is(e, pat):
    return re.search(pat, e.callee) is not None


def P(i):
    return z3.Const('p%d' % i, V)


def show(o):
    return '%s | trace: %s | value: %r' % (o.kind + (':' + o.detail if o.detail else ''), '; '.join(map(repr, calls(o))), o.value)


def norm_ty(s):
    s = re.sub(r"'\w+\s*,?\s*", '', s)          # lifetimes carry no meaning here
    s = re.sub(r'\b(?:[a-z_][a-z0-9_]*::)+', '', s)  # module paths
    s = re.sub(r'\s+', '', s)
    s = s.replace('<>', '')
    return s


def straight(ctx, key, fn, what):
    """Body has exactly one normal path and no diverging one; returns it (or None)."""
    outs = ctx.run(fn)
    rets = returns(outs)
    others = [o for o in outs if o.kind != 'return']
    ok = len(rets) == 1 and not others
    ctx.ob(key, '%s: single straight-line path' % what, ok, '' if ok else '%d return paths, %d other: %s' % (len(rets), len(others), [show(o) for o in outs][:4]))
    return rets[0] if ok else None


def check_member_seq(ctx, key, what, fn, members, method):
    """reads()/writes() of a composite = concatenation of the members' reads()/writes() in order."""
    o = straight(ctx, key, fn, what)
    if o is None:
        return
    cs = calls(o)
    want = ["<%s as SystemData<'_>>::%s" % (m, method) for m in members]
    got = [e.callee for e in cs]
    ok_shape = [norm_ty(g) for g in got] == [norm_ty(w) for w in want]
    ctx.ob(key, '%s: calls exactly the members\' %s() once each, in order' % (what, method), ok_shape, '' if ok_shape else 'got %s want %s' % (got, want))
    if not isinstance(o.value, SeqV):
        ctx.ob(key, '%s: returns a sequence built from the members' % what, False, 'value %r' % (o.value,))
        return
    exp = z3.Empty(SeqR)
    for e in cs:
        if re.search(r'::%s$' % method, e.callee):
            exp = z3.Concat(exp, f_seqof(e.result))
    ok = ctx.valid('%s.%s == concat(members)' % (what, method), o.value.seq == exp) and ok_shape
    ctx.ob(key, '%s: result == %s' % (what, ' ++ '.join('%s(%s)' % (method, m) for m in members) or 'empty'), ok, '' if ok else 'result %s' % o.value)


def check_member_calls(ctx, key, what, fn, members, method, world_param=1):
    """setup / fetch of a composite: one call per member, in order, each on the world passed in."""
    o = straight(ctx, key, fn, what)
    if o is None:
        return None
    cs = calls(o)
    want = ["<%s as SystemData<'_>>::%s" % (m, method) for m in members]
    got = [e.callee for e in cs]
    ok_shape = [norm_ty(g) for g in got] == [norm_ty(w) for w in want]
    ctx.ob(key, '%s: calls exactly the members\' %s once each, in order' % (what, method), ok_shape, '' if ok_shape else 'got %s want %s' % (got, want))
    ok_args = all(len(e.args) == 1 and ctx.valid('%s arg is the world' % what, e.args[0] == P(world_param)) for e in cs)
    ctx.ob(key, '%s: every member %s receives the caller\'s world' % (what, method), ok_args)
    return o, cs


# ------------------------------------------------------------------------------------------------
# C06

LETTERS = 'ABCDEFGHIJKLMNOPQRSTUVWXYZ'


def spec_c06_tuples(ctx):
    fns = [f for f in ctx.fns() if f.name.startswith('impl_data::<impl at')]
    groups, cur = [], []
    for f in fns:
        cur.append(f)
        if len(cur) == 4:
            groups.append(cur); cur = []
    kinds_ok = all(sorted(g.short for g in grp) == ['fetch', 'reads', 'setup', 'writes'] for grp in groups) and not cur
    ctx.ob('tuple-impls', 'tuple impls come as (setup, fetch, reads, writes) groups', kinds_ok, '%d fns' % len(fns))
    if not kinds_ok:
        return
    arities = []
    for grp in groups:
        by = {g.short: g for g in grp}
        ret = by['fetch'].ret.strip()
        inner = ret[1:-1].strip()
        members = [x for x in M.split_top(inner[:-1] if inner.endswith(',') else inner)]
        n = len(members)
        arities.append(n)
        key = 'tuple-arity-%d' % n
        what = 'tuple%d' % n
        ok_m = members == list(LETTERS[:n])
        ctx.ob(key, '%s: member types are the impl\'s type parameters in order' % what, ok_m, str(members))
        check_member_seq(ctx, key, what + '::reads', by['reads'], members, 'reads')
        check_member_seq(ctx, key, what + '::writes', by['writes'], members, 'writes')
        check_member_calls(ctx, key, what + '::setup', by['setup'], members, 'setup')
        r = check_member_calls(ctx, key, what + '::fetch', by['fetch'], members, 'fetch')
        if r:
            o, cs = r
            ok = isinstance(o.value, Agg) and len(o.value.fields) == n and len(cs) == n and all(
                ctx.valid('%s field %d' % (what, i), to_term(o.value.fields[i]) == cs[i].result) for i in range(n))
            ctx.ob(key, '%s::fetch: field i of the result is member i\'s fetched value' % what, ok, '' if ok else repr(o.value))
    ctx.ob('tuple-impls', 'tuple arities 1..26 each implemented once', sorted(arities) == list(range(1, 27)), str(sorted(arities)))


def seq_of_ids(ctx, key, what, fn, type_args):
    """reads()/writes() returning exactly [ResourceId::new::<X>() for X in type_args]."""
    o = straight(ctx, key, fn, what)
    if o is None:
        return
    cs = calls(o)
    cs_ids = [e for e in cs if re.search(r'ResourceId::new::<', e.callee)]
    other = [e.callee for e in cs if e not in cs_ids and not re.search(r'Box::<\[.*ResourceId; \d+\]>::new_uninit$', e.callee)]
    got = [re.search(r'ResourceId::new::<(.*)>$', e.callee).group(1) for e in cs_ids]
    ok_shape = got == list(type_args) and not other
    ctx.ob(key, '%s: builds ids exactly for %s' % (what, list(type_args)), ok_shape, '' if ok_shape else 'ids %s, other calls %s' % (got, other))
    if not isinstance(o.value, SeqV):
        ctx.ob(key, '%s: returns a vector of those ids' % what, False, repr(o.value))
        return
    exp = z3.Empty(SeqR)
    for e in cs_ids:
        exp = z3.Concat(exp, z3.Unit(f_rid(e.result)))
    ok = ctx.valid(what, o.value.seq == exp) and ok_shape
    ctx.ob(key, '%s: result == %s' % (what, ['Id<%s>' % t for t in type_args]), ok, '' if ok else str(o.value))


def chain_spec(ctx, key, what, fn, pats, ret_is_last=True, first_arg=None):
    """Single path whose calls match pats in order; optionally first call's arg0 is param `first_arg`
    and each later call consumes the previous result; the function returns the last result."""
    o = straight(ctx, key, fn, what)
    if o is None:
        return None
    cs = calls(o)
    ok = len(cs) == len(pats) and all(callee_is(e, p) for e, p in zip(cs, pats))
    ctx.ob(key, '%s: calls are %s' % (what, pats), ok, '' if ok else 'got %s' % [e.callee for e in cs])
    if not ok:
        return None
    if first_arg is not None and cs:
        ctx.ob(key, '%s: first call operates on parameter %d' % (what, first_arg), ctx.valid(what + ' arg', cs[0].args[0] == P(first_arg)))
    for a, b in zip(cs, cs[1:]):
        ctx.ob(key, '%s: %s consumes the result of %s' % (what, b.callee[:40], a.callee[:40]), any(ctx.valid(what + ' flow', x == a.result) for x in b.args))
    if ret_is_last and cs:
        ctx.ob(key, '%s: returns the last result' % what, ctx.valid(what + ' ret', to_term(o.value) == cs[-1].result), repr(o.value))
    return o


def spec_c06_leaves(ctx):
    RD = r"SystemData<'a> for Read<'a, T, F>"
    WR = r"SystemData<'a> for Write<'a, T, F>"
    ORD = r"SystemData<'a> for Option<Read<'a, T, F>>"
    OWR = r"SystemData<'a> for Option<Write<'a, T, F>>"
    for hdr, nm, rd, wr, fetch_pats, setup_pats in [
        (RD, 'Read', ['T'], [], [r'World::fetch::<T>$', r"<Fetch<'_, T> as Into<(data::)?Read<'_, T, F>>>::into$"], [r'^<F as SetupHandler<T>>::setup$']),
        (WR, 'Write', [], ['T'], [r'World::fetch_mut::<T>$', r"<FetchMut<'_, T> as Into<(data::)?Write<'_, T, F>>>::into$"], [r'^<F as SetupHandler<T>>::setup$']),
        (ORD, 'Option<Read>', ['T'], [], [r'World::try_fetch::<T>$', r"Option::<Fetch<'_, T>>::map::<(data::)?Read<'_, T, F>, .*Into<(data::)?Read<'_, T, F>>>::into"], []),
        (OWR, 'Option<Write>', [], ['T'], [r'World::try_fetch_mut::<T>$', r"Option::<FetchMut<'_, T>>::map::<(data::)?Write<'_, T, F>, .*Into<(data::)?Write<'_, T, F>>>::into"], []),
    ]:
        key = 'leaf-' + nm
        seq_of_ids(ctx, key, nm + '::reads', ctx.one(hdr, 'reads'), rd)
        seq_of_ids(ctx, key, nm + '::writes', ctx.one(hdr, 'writes'), wr)
        chain_spec(ctx, key, nm + '::fetch', ctx.one(hdr, 'fetch'), fetch_pats, True, 1)
        chain_spec(ctx, key, nm + '::setup', ctx.one(hdr, 'setup'), setup_pats, False, 1 if setup_pats else None)
    # From<Fetch> for Read / From<FetchMut> for Write keep the guard
    for hdr, nm in [(r"From<Fetch<'a, T>> for Read<'a, T, F>", 'Read::from'), (r"From<FetchMut<'a, T>> for Write<'a, T, F>", 'Write::from')]:
        o = straight(ctx, 'leaf-from', ctx.one(hdr, 'from'), nm)
        if o:
            ok = isinstance(o.value, Agg) and not calls(o) and ctx.valid(nm, to_term(o.value.fields[0]) == P(1))
            ctx.ob('leaf-from', '%s: wraps the guard it was given and does nothing else' % nm, ok, repr(o.value))
    # (), PhantomData: nothing declared, nothing fetched, nothing set up
    for hdr, nm in [(r"impl<'a> SystemData<'a> for \(\)", 'unit'), (r"SystemData<'_> for PhantomData<T>", 'PhantomData')]:
        key = 'leaf-' + nm
        seq_of_ids(ctx, key, nm + '::reads', ctx.one(hdr, 'reads'), [])
        seq_of_ids(ctx, key, nm + '::writes', ctx.one(hdr, 'writes'), [])
        for m in ('setup', 'fetch'):
            o = straight(ctx, key, ctx.one(hdr, m), nm + '::' + m)
            if o:
                ctx.ob(key, '%s::%s touches nothing' % (nm, m), not calls(o), show(o))
    # StaticAccessor forwards to the type-level declaration; blanket DynamicSystemData forwards setup/fetch
    SA = r"Accessor for StaticAccessor<T>"
    for m in ('reads', 'writes'):
        chain_spec(ctx, 'static-accessor', 'StaticAccessor::' + m, ctx.one(SA, m), [r"^<T as (system::)?SystemData<'_>>::%s$" % m], True)
    o = straight(ctx, 'static-accessor', ctx.one(SA, 'try_new'), 'StaticAccessor::try_new')
    if o:
        ctx.ob('static-accessor', 'StaticAccessor::try_new is Some', isinstance(o.value, Agg) and o.value.variant == 'Some', repr(o.value))
    DY = r"DynamicSystemData<'a> for T"
    for m in ('setup', 'fetch'):
        chain_spec(ctx, 'static-accessor', 'blanket DynamicSystemData::' + m, ctx.one(DY, m), [r"^<T as (system::)?SystemData<'_>>::%s$" % m], m == 'fetch')
        o = returns(ctx.run(ctx.one(DY, m)))
        if o and calls(o[0]):
            ctx.ob('static-accessor', 'blanket DynamicSystemData::%s passes the world (2nd parameter)' % m, ctx.valid('dyn ' + m, calls(o[0])[0].args[0] == P(2)))
    # DefaultProvider / PanicHandler
    o = chain_spec(ctx, 'setup-handlers', 'DefaultProvider::setup', ctx.one(r'SetupHandler<T> for DefaultProvider', 'setup'),
                   [r'World::entry::<T>$', r"Entry::<'_, T>::or_insert_with::<fn\(\) -> T \{<T as Default>::default\}>$"], False, 1)
    o = straight(ctx, 'setup-handlers', ctx.one(r'SetupHandler<T> for PanicHandler', 'setup'), 'PanicHandler::setup')
    if o:
        ctx.ob('setup-handlers', 'PanicHandler::setup creates nothing', not calls(o), show(o))
    # World::setup / system_data / exec forward to T
    W = r'^src/world/mod.rs: impl World'
    chain_spec(ctx, 'world-forward', 'World::setup', ctx.one(W, 'setup'), [r"^<T as (system::)?SystemData<'_>>::setup$"], False, 1)
    chain_spec(ctx, 'world-forward', 'World::system_data', ctx.one(W, 'system_data'), [r"^<T as (system::)?SystemData<'_>>::fetch$"], True, 1)


def sample_structs():
    src = open(os.path.join(VERIF, 'mir', 'derive_samples', 'src', 'lib.rs')).read()
    out = []
    for m in re.finditer(r'#\[derive\(SystemData\)\]\s*pub struct (\w+)(<[^>{(]*>)?\s*(?:where[^{(]*)?(\{.*?\n\}|\(.*?\);)', src, re.S):
        name, body = m.group(1), m.group(3)
        if body.startswith('{'):
            fields = [(a.strip(), b.strip()) for a, b in (x.split(':', 1) for x in M.split_top(body[1:-1].strip().rstrip(',')))]
            tuple_like = False
        else:
            fields = [(str(i), x.strip()) for i, x in enumerate(M.split_top(body[1:body.rindex(')')]))]
            tuple_like = True
        line = src[:m.start()].count('\n') + 1
        out.append((name, fields, tuple_like, line))
    return out


def spec_c06_derive(ctx):
    fns = ctx.fns('derive')
    structs = sample_structs()
    ctx.ob('derive', 'sample structs parsed from mir/derive_samples/src/lib.rs', len(structs) >= 7, str([s[0] for s in structs]))
    for name, fields, tuple_like, line in structs:
        key = 'derive-' + name
        by = {}
        for f in fns:
            m = re.search(r'<impl at src/lib.rs:(\d+):', f.name)
            if m and int(m.group(1)) == line and f.short in ('setup', 'fetch', 'reads', 'writes'):
                by[f.short] = f
        if len(by) != 4:
            ctx.ob(key, 'derived impl of %s found in the MIR dump' % name, False, str(list(by)))
            continue
        members = [t for _, t in fields]
        check_member_seq(ctx, key, name + '::reads', by['reads'], members, 'reads')
        check_member_seq(ctx, key, name + '::writes', by['writes'], members, 'writes')
        check_member_calls(ctx, key, name + '::setup', by['setup'], members, 'setup')
        r = check_member_calls(ctx, key, name + '::fetch', by['fetch'], members, 'fetch')
        if r:
            o, cs = r
            # a zero-sized member (PhantomData, ()) has one value: MIR materialises it as a constant
            ok = isinstance(o.value, Agg) and len(o.value.fields) == len(members) == len(cs) and all(
                isinstance(o.value.fields[i], Cst) or ctx.valid('%s field %d' % (name, i), to_term(o.value.fields[i]) == cs[i].result) for i in range(len(members)))
            ctx.ob(key, '%s::fetch: field i of the result is member i\'s fetched value' % name, ok, repr(o.value))


SPECS = {
    'C06': [('tuple impls (26 arities x setup/fetch/reads/writes)', spec_c06_tuples),
            ('leaf impls, accessors, setup handlers', spec_c06_leaves),
            ('derive samples', spec_c06_derive)],
}


def confirm_native(pid, key):
    """Runs the native confirmation program for a failed obligation key, if one exists.
    Returns (status, text): confirmed | refuted | none"""
    from . import confirm
    return confirm.run(pid, key)


def run_part(pid, part, tier, report, known):
    ctx = Ctx(pid)
    t0 = time.time()
    incon = []
    names = part.get('specs')
    for title, fn in SPECS[pid]:
        if names and fn.__name__ not in names:
            continue
        try:
            fn(ctx)
        except M.Unsupported as e:
            incon.append('E2 %s: %s' % (title, e))
    # cvc5 cross-check of every z3 verdict
    bad, n_x, t_x = ctx.prover.cross_check(None if tier == 'thorough' else 400)
    for name, a, b in bad:
        if b.startswith('error') or b in ('unknown', 'timeout'):
            continue
        incon.append('solver disagreement on "%s": z3 %s, cvc5 %s' % (name, a, b))
    failed = [o for o in ctx.obligations if not o['ok']]
    violations, known_hits = [], []
    evdir = os.path.join(VERIF, 'evidence', 'replay')
    os.makedirs(evdir, exist_ok=True)
    by_key = {}
    for o in failed:
        by_key.setdefault(o['key'], []).append(o)
    open_known = [f for f in known if f['property'] == pid and f.get('status', 'open') == 'open']
    for key, obs in sorted(by_key.items()):
        status, text = confirm_native(pid, key)
        rec = {'engine': 'mir', 'property': pid, 'key': key, 'failed_obligations': obs, 'native_confirmation': status,
               'native_output': text[-2000:], 'how_to_replay': 'python3-vt run_check.py --replay <this file> re-runs the symbolic execution of the functions behind this key on the current tree and the native confirmation'}
        path = os.path.join(evdir, '%s_%s.json' % (pid, re.sub(r'\W+', '_', key)))
        json.dump(rec, open(path, 'w'), indent=1)
        report['counterexamples'].append({'key': key, 'obligations': [o['name'] + (': ' + o['detail'] if o['detail'] else '') for o in obs][:6], 'native_confirmation': status})
        if status == 'refuted':
            incon.append('E2 obligation group "%s" failed but the native confirmation passes (encoding too strict?): %s' % (key, obs[0]['name']))
            continue
        kf = [f for f in open_known if f['key'] == key]
        if kf:
            known_hits.append((kf[0], path))
        else:
            violations.append((key, '; '.join(o['name'] + (' [' + o['detail'][:160] + ']' if o['detail'] else '') for o in obs[:3]), path))
    nq = len(ctx.prover.queries) + ctx.stats['feasibility_queries']
    report['mir_queries'] = report.get('mir_queries', 0) + nq
    report['mir_functions'] = report.get('mir_functions', 0) + len(set(ctx.functions))
    report['mir_function_names'] = report.get('mir_function_names', []) + sorted(set(re.sub(r'^.*?<impl at ', '<impl at ', f) for f in ctx.functions))[:400]
    report['mir_time'] = round(report.get('mir_time', 0.0) + ctx.prover.z3_time + ctx.stats['solver_s'], 2)
    report['mir_samples'] = report.get('mir_samples', []) + [{'obligation': o['name'], 'holds': o['ok']} for o in ctx.obligations[:3] + ctx.obligations[-3:]]
    report['mir'] = {'obligations': len(ctx.obligations), 'obligations_holding': len(ctx.obligations) - len(failed),
                     'z3_validity_queries': len(ctx.prover.queries), 'path_feasibility_queries': ctx.stats['feasibility_queries'],
                     'cvc5_cross_checked': n_x, 'cvc5_disagreements': len(bad), 'cvc5_time_s': round(t_x, 1),
                     'mir_dump_s': round(ctx.dump_s, 1), 'wall_s': round(time.time() - t0, 1),
                     'loop_unrolling': 3, 'failed': [o['name'] for o in failed][:20]}
    return violations, known_hits, incon
