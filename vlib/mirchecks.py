"""E2 checks: specifications over the symbolic execution of /repo's current MIR (vlib/mir.py).

Every spec function receives a Ctx and registers obligations with ctx.ob(key, name, ok, detail).
`ok` comes from a z3 validity query (ctx.valid) wherever values are compared; shape facts (which
callees occur, in which order) are read off the enumerated paths.  A failed obligation is a
candidate violation; where a native confirmation program exists (confirm/), it is run before the
violation is reported.
"""
import json, os, re, shutil, subprocess, time
import z3
from . import mir as M
from .mir import T, Cst, Agg, Ref, SeqV, V, f_ref, f_deref, f_seqof, f_rid, SeqR, to_term, as_seq

VERIF = os.path.dirname(os.path.dirname(os.path.abspath(__file__)))
BUILD = os.path.join(VERIF, '.build', 'mir')
ENV = dict(os.environ, CARGO_NET_OFFLINE='true')

_x = z3.Const('x', V)
AXIOMS = []     # (reborrow `&*p` == p is applied syntactically in mir.to_term)


def dump_mir(kind):
    """Dumps MIR of /repo's current working tree. kind: default | nopar | derive"""
    os.makedirs(BUILD, exist_ok=True)
    out = os.path.join(BUILD, kind + '.mir')
    tdir = os.path.join(BUILD, 'target-' + kind)
    cwd = '/repo' if kind != 'derive' else os.path.join(VERIF, 'mir', 'derive_samples')
    # force the crate itself to be re-run: rustc prints MIR only when it really compiles
    for root in [os.path.join(tdir, 'debug', '.fingerprint')]:
        if os.path.isdir(root):
            for d in os.listdir(root):
                if d.startswith(('shred-', 'derive-samples-')) and not d.startswith('shred-derive-'):
                    shutil.rmtree(os.path.join(root, d), ignore_errors=True)
    cmd = ['cargo', '+nightly', 'rustc', '--offline', '--lib', '--target-dir', tdir]
    if kind == 'nopar':
        cmd += ['--no-default-features']
    cmd += ['--', '-Zunpretty=mir'] + ([] if kind == 'debug' else ['-C', 'debug-assertions=off'])
    t0 = time.time()
    with open(out, 'w') as f:
        p = subprocess.run(cmd, cwd=cwd, stdout=f, stderr=subprocess.PIPE, text=True, env=ENV)
    if p.returncode != 0 or os.path.getsize(out) < 1000:
        if kind == 'derive' and p.returncode == 0:
            # dependency change only: force by touching nothing in /repo - clean sample crate instead
            shutil.rmtree(tdir, ignore_errors=True)
            with open(out, 'w') as f:
                p = subprocess.run(cmd, cwd=cwd, stdout=f, stderr=subprocess.PIPE, text=True, env=ENV)
        if p.returncode != 0 or os.path.getsize(out) < 1000:
            raise M.Unsupported('MIR dump (%s) failed: %s' % (kind, p.stderr[-800:]))
    return out, time.time() - t0


class Ctx:
    def __init__(self, pid):
        self.pid = pid
        self.prover = M.Prover()
        self.obligations = []       # dicts
        self.stats = {'feasibility_queries': 0, 'solver_s': 0.0}
        self.fn_sets = {}
        self.functions = []
        self.inconclusive = []
        self.dump_s = 0.0
        self._runs = {}

    def fns(self, kind='default'):
        if kind not in self.fn_sets:
            path, dt = dump_mir(kind)
            self.dump_s += dt
            cur = M.parse_mir(path, '/repo' if kind != 'derive' else os.path.join(VERIF, 'mir', 'derive_samples'))
            self.fn_sets[kind] = self.normalise_against_baseline(cur, kind) if kind != 'derive' else cur
        return self.fn_sets[kind]

    def normalise_against_baseline(self, cur, kind):
        """Function families (a function and its closures) whose bodies differ from the reviewed baseline but
        whose canonical summary equals the baseline's are replaced by the baseline bodies: the specifications
        below are written against the reviewed shape, a behaviour-preserving refactoring must not trip them.
        A family that is not canonically equivalent is left as it is (and judged as it is)."""
        from . import canon
        bdir = os.path.join(VERIF, 'mir', 'baseline')
        bfile = os.path.join(bdir, kind + '.mir')
        if not os.path.exists(bfile) or os.environ.get('VERIF_NO_BASELINE'):
            return cur
        base = M.parse_mir(bfile, bdir)
        known = set(f.short for f in base)
        cprog = canon.Program(cur, known, set(canon.fn_key(f) for f in base))
        bprog = canon.Program(base, known, set(canon.fn_key(f) for f in cur))

        def fam_key(f):
            top = re.sub(r'::\{closure#\d+\}', '', f.name)
            return (re.sub(r':\d+:\d+: \d+:\d+', '', f.impl_header), re.sub(r'src/[\w/]+\.rs:\d+:\d+: \d+:\d+', 'LOC', top))

        def group(fns):
            g, order = {}, []
            for f in fns:
                k = fam_key(f)
                if k not in g:
                    g[k] = []
                    order.append(k)
                g[k].append(f)
            return g, order
        gc, order = group(cur)
        gb, _ = group(base)
        self.equiv_notes = getattr(self, 'equiv_notes', [])
        subst = {}
        for k in order:
            fam = gc[k]
            bfam = gb.get(k)
            if bfam is None or 'tests::' in fam[0].name:
                continue
            if len(fam) == len(bfam) and all(_body_text(a) == _body_text(b) for a, b in zip(fam, bfam)):
                continue
            # several functions can share one family key (the 26 tuple impls): pair the non-closure members in order
            tops_c = [f for f in fam if '{closure#' not in f.name]
            tops_b = [f for f in bfam if '{closure#' not in f.name]
            ok = len(tops_c) == len(tops_b) and len(tops_c) > 0
            if ok:
                changed_closures = len(fam) != len(bfam) or any(_body_text(a) != _body_text(b) for a, b in zip(fam, bfam) if '{closure#' in a.name)
                for a, b in zip(tops_c, tops_b):
                    if _body_text(a) == _body_text(b) and not changed_closures:
                        continue          # (only reachable when several top-level functions share the key)
                    eq, sa, sb = canon.equivalent(a, cprog, b, bprog, self.stats)
                    if not eq:
                        ok = False
                        break
            if ok:
                subst[k] = bfam
                self.equiv_notes.append('%s (%s): body differs from the reviewed baseline, canonical summaries equal -> judged on the baseline body' % (k[1][-60:], kind))
        out, seen = [], {}
        for f in cur:                      # keep the order of the dump
            k = fam_key(f)
            if k not in subst:
                out.append(f)
                continue
            bfam = subst[k]
            n = seen.get(k, 0)
            seen[k] = n + 1
            if len(bfam) == len(gc[k]):
                out.append(bfam[n])
            elif n == 0:
                out += bfam
        return out

    def find(self, header_re, name, kind='default', optional=False):
        """Functions whose impl header (source text of the `impl ...` line) matches and whose last path segment is name."""
        out = [f for f in self.fns(kind) if f.short == name and re.search(header_re, f.impl_header or f.name)]
        if not out and not optional:
            raise M.Unsupported('function %s in impl /%s/ not found in the MIR dump' % (name, header_re))
        return out

    def one(self, header_re, name, kind='default'):
        fs = self.find(header_re, name, kind)
        if len(fs) != 1:
            raise M.Unsupported('%d functions match %s in /%s/' % (len(fs), name, header_re))
        return fs[0]

    def run(self, fn, loop_bound=3):
        """Symbolic paths of fn. The default unrolling bound is 3 in the quick tier and 5 in thorough (Ctx.loop_bound);
        a function whose path count exceeds the step bound is retried with smaller bounds (recorded in the evidence)."""
        if loop_bound == 3:
            loop_bound = getattr(self, 'loop_bound', 3)
        k = (id(fn), loop_bound)
        if k not in self._runs:
            tried = loop_bound
            while True:
                try:
                    self._runs[k] = M.Exec(fn, loop_bound=tried, stats=self.stats).run()
                    break
                except M.Unsupported as e:
                    if 'step bound' not in str(e) or tried <= 1:
                        raise
                    tried = 3 if tried > 3 else 1       # too many paths: unroll less
            if tried != loop_bound:
                self.reduced_unrolling = getattr(self, 'reduced_unrolling', {})
                self.reduced_unrolling[re.sub(r'^.*?<impl at ', '<impl at ', fn.name)[-90:]] = tried
            self.functions.append(fn.name)
        return self._runs[k]

    def valid(self, name, claim, assumptions=()):
        return self.prover.valid(name, claim, list(AXIOMS) + list(assumptions))

    def ob(self, key, name, ok, detail=''):
        self.obligations.append({'key': key, 'name': name, 'ok': bool(ok), 'detail': detail})
        return bool(ok)


# ------------------------------------------------------------------------------------------------
# helpers

def calls(o, skip_drop=True):
    return [e for e in o.trace if not (skip_drop and e.callee == 'drop')]


def returns(outs):
    return [o for o in outs if o.kind == 'return']


def callee_is(e, pat):
    return re.search(pat, e.callee) is not None


def P(i):
    return z3.Const('p%d' % i, V)


def show(o):
    return '%s | trace: %s | value: %r' % (o.kind + (':' + o.detail if o.detail else ''), '; '.join(map(repr, calls(o))), o.value)


def norm_ty(s):
    s = re.sub(r"'\w+\s*,?\s*", '', s)          # lifetimes carry no meaning here
    s = re.sub(r'\b(?:[a-z_][a-z0-9_]*::)+', '', s)  # module paths
    s = re.sub(r'\s+', '', s)
    s = s.replace('<>', '')
    return s


def straight(ctx, key, fn, what):
    """Body has exactly one normal path and no diverging one; returns it (or None)."""
    outs = ctx.run(fn)
    rets = returns(outs)
    others = [o for o in outs if o.kind != 'return']
    ok = len(rets) == 1 and not others
    ctx.ob(key, '%s: single straight-line path' % what, ok, '' if ok else '%d return paths, %d other: %s' % (len(rets), len(others), [show(o) for o in outs][:4]))
    return rets[0] if ok else None


def check_member_seq(ctx, key, what, fn, members, method):
    """reads()/writes() of a composite = concatenation of the members' reads()/writes() in order."""
    o = straight(ctx, key, fn, what)
    if o is None:
        return
    cs = calls(o)
    want = ["<%s as SystemData<'_>>::%s" % (m, method) for m in members]
    got = [e.callee for e in cs]
    ok_shape = [norm_ty(g) for g in got] == [norm_ty(w) for w in want]
    ctx.ob(key, '%s: calls exactly the members\' %s() once each, in order' % (what, method), ok_shape, '' if ok_shape else 'got %s want %s' % (got, want))
    if not isinstance(o.value, SeqV):
        ctx.ob(key, '%s: returns a sequence built from the members' % what, False, 'value %r' % (o.value,))
        return
    exp = z3.Empty(SeqR)
    for e in cs:
        if re.search(r'::%s$' % method, e.callee):
            exp = z3.Concat(exp, f_seqof(e.result))
    ok = ctx.valid('%s.%s == concat(members)' % (what, method), o.value.seq == exp) and ok_shape
    ctx.ob(key, '%s: result == %s' % (what, ' ++ '.join('%s(%s)' % (method, m) for m in members) or 'empty'), ok, '' if ok else 'result %s' % o.value)


def check_member_calls(ctx, key, what, fn, members, method, world_param=1):
    """setup / fetch of a composite: one call per member, in order, each on the world passed in."""
    o = straight(ctx, key, fn, what)
    if o is None:
        return None
    cs = calls(o)
    want = ["<%s as SystemData<'_>>::%s" % (m, method) for m in members]
    got = [e.callee for e in cs]
    ok_shape = [norm_ty(g) for g in got] == [norm_ty(w) for w in want]
    ctx.ob(key, '%s: calls exactly the members\' %s once each, in order' % (what, method), ok_shape, '' if ok_shape else 'got %s want %s' % (got, want))
    ok_args = all(len(e.args) == 1 and ctx.valid('%s arg is the world' % what, e.args[0] == P(world_param)) for e in cs)
    ctx.ob(key, '%s: every member %s receives the caller\'s world' % (what, method), ok_args)
    return o, cs


# ------------------------------------------------------------------------------------------------
# C06

LETTERS = 'ABCDEFGHIJKLMNOPQRSTUVWXYZ'


def spec_c06_tuples(ctx):
    fns = [f for f in ctx.fns() if f.name.startswith('impl_data::<impl at')]
    groups, cur = [], []
    for f in fns:
        cur.append(f)
        if len(cur) == 4:
            groups.append(cur); cur = []
    kinds_ok = all(sorted(g.short for g in grp) == ['fetch', 'reads', 'setup', 'writes'] for grp in groups) and not cur
    ctx.ob('tuple-impls', 'tuple impls come as (setup, fetch, reads, writes) groups', kinds_ok, '%d fns' % len(fns))
    if not kinds_ok:
        return
    arities = []
    for grp in groups:
        by = {g.short: g for g in grp}
        ret = by['fetch'].ret.strip()
        inner = ret[1:-1].strip()
        members = [x for x in M.split_top(inner[:-1] if inner.endswith(',') else inner)]
        n = len(members)
        arities.append(n)
        key = 'tuple-arity-%d' % n
        what = 'tuple%d' % n
        ok_m = members == list(LETTERS[:n])
        ctx.ob(key, '%s: member types are the impl\'s type parameters in order' % what, ok_m, str(members))
        check_member_seq(ctx, key, what + '::reads', by['reads'], members, 'reads')
        check_member_seq(ctx, key, what + '::writes', by['writes'], members, 'writes')
        check_member_calls(ctx, key, what + '::setup', by['setup'], members, 'setup')
        r = check_member_calls(ctx, key, what + '::fetch', by['fetch'], members, 'fetch')
        if r:
            o, cs = r
            ok = isinstance(o.value, Agg) and len(o.value.fields) == n and len(cs) == n and all(
                ctx.valid('%s field %d' % (what, i), to_term(o.value.fields[i]) == cs[i].result) for i in range(n))
            ctx.ob(key, '%s::fetch: field i of the result is member i\'s fetched value' % what, ok, '' if ok else repr(o.value))
    ctx.ob('tuple-impls', 'tuple arities 1..26 each implemented once', sorted(arities) == list(range(1, 27)), str(sorted(arities)))


LEAF_USES = {}      # leaf function name -> summaries of other leaf impls it relied on


def seq_of_ids(ctx, key, what, fn, type_args):
    """reads()/writes() returning exactly [ResourceId::new::<X>() for X in type_args], possibly by forwarding
    to another leaf impl of the library (summarised; the use graph is checked for cycles)."""
    outs = M.Exec(fn, stats=ctx.stats, leaf_summaries=True).run()
    ctx.functions.append(fn.name)
    rets = returns(outs)
    ok = len(rets) == 1 and len(outs) == 1
    ctx.ob(key, '%s: single straight-line path' % what, ok, '' if ok else str([show(o)[:120] for o in outs][:3]))
    if not ok:
        return
    o = rets[0]
    used = [n[len('summary:'):] for n in o.st.notes if n.startswith('summary:')]
    LEAF_USES[what] = used
    cs = calls(o)
    other = [e.callee for e in cs if not re.search(r'ResourceId::new::<|Box::<\[.*ResourceId; \d+\]>::new_uninit$|Vec::<(world::)?ResourceId>::', e.callee) and e.callee not in used]
    ctx.ob(key, '%s: only builds resource ids (or forwards to another leaf declaration of the library)' % what, not other, str(other))
    if not isinstance(o.value, SeqV):
        ctx.ob(key, '%s: returns a vector of ids' % what, False, repr(o.value))
        return
    exp = z3.Empty(SeqR)
    for t in type_args:
        exp = z3.Concat(exp, z3.Unit(f_rid(M.id_of(t))))
    ok = ctx.valid(what, o.value.seq == exp)
    ctx.ob(key, '%s: result == %s' % (what, ['Id<%s>' % t for t in type_args]), ok, '' if ok else str(o.value))


def leaf_uses_acyclic(ctx):
    def target(callee):
        m = re.match(r"^<(Option<)?(?:data::|world::|shred::)*(Read|Write)<.*>(>)? as (?:system::)?SystemData<'_>>::(reads|writes)$", callee)
        return ('Option<%s>' % m.group(2) if m.group(1) else m.group(2)) + '::' + m.group(4) if m else None
    g = {k: [target(c) for c in v if target(c)] for k, v in LEAF_USES.items()}
    def cyc(n, seen):
        if n in seen:
            return True
        return any(cyc(x, seen | {n}) for x in g.get(n, []))
    bad = [n for n in g if cyc(n, frozenset())]
    ctx.ob('leaf-summaries', 'leaf declarations that forward to each other do so without a cycle', not bad, str(bad))


def chain_spec(ctx, key, what, fn, pats, ret_is_last=True, first_arg=None):
    """Single path whose calls match pats in order; optionally first call's arg0 is param `first_arg`
    and each later call consumes the previous result; the function returns the last result."""
    o = straight(ctx, key, fn, what)
    if o is None:
        return None
    cs = calls(o)
    ok = len(cs) == len(pats) and all(callee_is(e, p) for e, p in zip(cs, pats))
    ctx.ob(key, '%s: calls are %s' % (what, pats), ok, '' if ok else 'got %s' % [e.callee for e in cs])
    if not ok:
        return None
    if first_arg is not None and cs:
        ctx.ob(key, '%s: first call operates on parameter %d' % (what, first_arg), ctx.valid(what + ' arg', cs[0].args[0] == P(first_arg)))
    for a, b in zip(cs, cs[1:]):
        ctx.ob(key, '%s: %s consumes the result of %s' % (what, b.callee[:40], a.callee[:40]), any(ctx.valid(what + ' flow', x == a.result) for x in b.args))
    if ret_is_last and cs:
        ctx.ob(key, '%s: returns the last result' % what, ctx.valid(what + ' ret', to_term(o.value) == cs[-1].result), repr(o.value))
    return o


def spec_c06_leaves(ctx):
    RD = r"SystemData<'a> for Read<'a, T, F>"
    WR = r"SystemData<'a> for Write<'a, T, F>"
    ORD = r"SystemData<'a> for Option<Read<'a, T, F>>"
    OWR = r"SystemData<'a> for Option<Write<'a, T, F>>"
    for hdr, nm, rd, wr, fetch_pats, setup_pats in [
        (RD, 'Read', ['T'], [], [r'World::fetch::<T>$', r"<Fetch<'_, T> as Into<(data::)?Read<'_, T, F>>>::into$"], [r'^<F as SetupHandler<T>>::setup$']),
        (WR, 'Write', [], ['T'], [r'World::fetch_mut::<T>$', r"<FetchMut<'_, T> as Into<(data::)?Write<'_, T, F>>>::into$"], [r'^<F as SetupHandler<T>>::setup$']),
        (ORD, 'Option<Read>', ['T'], [], [r'World::try_fetch::<T>$', r"Option::<Fetch<'_, T>>::map::<(data::)?Read<'_, T, F>, .*Into<(data::)?Read<'_, T, F>>>::into"], []),
        (OWR, 'Option<Write>', [], ['T'], [r'World::try_fetch_mut::<T>$', r"Option::<FetchMut<'_, T>>::map::<(data::)?Write<'_, T, F>, .*Into<(data::)?Write<'_, T, F>>>::into"], []),
    ]:
        key = 'leaf-' + nm
        seq_of_ids(ctx, key, nm + '::reads', ctx.one(hdr, 'reads'), rd)
        seq_of_ids(ctx, key, nm + '::writes', ctx.one(hdr, 'writes'), wr)
        chain_spec(ctx, key, nm + '::fetch', ctx.one(hdr, 'fetch'), fetch_pats, True, 1)
        chain_spec(ctx, key, nm + '::setup', ctx.one(hdr, 'setup'), setup_pats, False, 1 if setup_pats else None)
    leaf_uses_acyclic(ctx)
    # From<Fetch> for Read / From<FetchMut> for Write keep the guard
    for hdr, nm in [(r"From<Fetch<'a, T>> for Read<'a, T, F>", 'Read::from'), (r"From<FetchMut<'a, T>> for Write<'a, T, F>", 'Write::from')]:
        o = straight(ctx, 'leaf-from', ctx.one(hdr, 'from'), nm)
        if o:
            ok = isinstance(o.value, Agg) and not calls(o) and ctx.valid(nm, to_term(o.value.fields[0]) == P(1))
            ctx.ob('leaf-from', '%s: wraps the guard it was given and does nothing else' % nm, ok, repr(o.value))
    # (), PhantomData: nothing declared, nothing fetched, nothing set up
    for hdr, nm in [(r"impl<'a> SystemData<'a> for \(\)", 'unit'), (r"SystemData<'_> for PhantomData<T>", 'PhantomData')]:
        key = 'leaf-' + nm
        seq_of_ids(ctx, key, nm + '::reads', ctx.one(hdr, 'reads'), [])
        seq_of_ids(ctx, key, nm + '::writes', ctx.one(hdr, 'writes'), [])
        for m in ('setup', 'fetch'):
            o = straight(ctx, key, ctx.one(hdr, m), nm + '::' + m)
            if o:
                ctx.ob(key, '%s::%s touches nothing' % (nm, m), not calls(o), show(o))
    # StaticAccessor forwards to the type-level declaration; blanket DynamicSystemData forwards setup/fetch
    SA = r"Accessor for StaticAccessor<T>"
    for m in ('reads', 'writes'):
        chain_spec(ctx, 'static-accessor', 'StaticAccessor::' + m, ctx.one(SA, m), [r"^<T as (system::)?SystemData<'_>>::%s$" % m], True)
    o = straight(ctx, 'static-accessor', ctx.one(SA, 'try_new'), 'StaticAccessor::try_new')
    if o:
        ctx.ob('static-accessor', 'StaticAccessor::try_new is Some', isinstance(o.value, Agg) and o.value.variant == 'Some', repr(o.value))
    DY = r"DynamicSystemData<'a> for T"
    for m in ('setup', 'fetch'):
        chain_spec(ctx, 'static-accessor', 'blanket DynamicSystemData::' + m, ctx.one(DY, m), [r"^<T as (system::)?SystemData<'_>>::%s$" % m], m == 'fetch')
        o = returns(ctx.run(ctx.one(DY, m)))
        if o and calls(o[0]):
            ctx.ob('static-accessor', 'blanket DynamicSystemData::%s passes the world (2nd parameter)' % m, ctx.valid('dyn ' + m, calls(o[0])[0].args[0] == P(2)))
    # DefaultProvider / PanicHandler
    o = chain_spec(ctx, 'setup-handlers', 'DefaultProvider::setup', ctx.one(r'SetupHandler<T> for DefaultProvider', 'setup'),
                   [r'World::entry::<T>$', r"Entry::<'_, T>::or_insert_with::<fn\(\) -> T \{<T as Default>::default\}>$"], False, 1)
    o = straight(ctx, 'setup-handlers', ctx.one(r'SetupHandler<T> for PanicHandler', 'setup'), 'PanicHandler::setup')
    if o:
        ctx.ob('setup-handlers', 'PanicHandler::setup creates nothing', not calls(o), show(o))
    # World::setup / system_data / exec forward to T
    W = r'^src/world/mod.rs: impl World'
    chain_spec(ctx, 'world-forward', 'World::setup', ctx.one(W, 'setup'), [r"^<T as (system::)?SystemData<'_>>::setup$"], False, 1)
    chain_spec(ctx, 'world-forward', 'World::system_data', ctx.one(W, 'system_data'), [r"^<T as (system::)?SystemData<'_>>::fetch$"], True, 1)


def sample_structs():
    src = open(os.path.join(VERIF, 'mir', 'derive_samples', 'src', 'lib.rs')).read()
    out = []
    for m in re.finditer(r'#\[derive\(SystemData\)\]\s*pub struct (\w+)(<(?:[^<>]|<[^<>]*>)*>)?\s*(?:where[^{(]*)?(\{.*?\n\}|\(.*?\);)', src, re.S):
        name, body = m.group(1), m.group(3)
        if body.startswith('{'):
            fields = [(a.strip(), b.strip()) for a, b in (x.split(':', 1) for x in M.split_top(body[1:-1].strip().rstrip(',')))]
            tuple_like = False
        else:
            fields = [(str(i), x.strip()) for i, x in enumerate(M.split_top(body[1:body.rindex(')')]))]
            tuple_like = True
        line = src[:m.start()].count('\n') + 1
        out.append((name, fields, tuple_like, line))
    return out


def spec_c06_derive(ctx):
    fns = ctx.fns('derive')
    structs = sample_structs()
    ctx.ob('derive', 'sample structs parsed from mir/derive_samples/src/lib.rs', len(structs) >= 9, str([s[0] for s in structs]))
    for name, fields, tuple_like, line in structs:
        key = 'derive-' + name
        by = {}
        for f in fns:
            m = re.search(r'<impl at src/lib.rs:(\d+):', f.name)
            if m and int(m.group(1)) == line and f.short in ('setup', 'fetch', 'reads', 'writes'):
                by[f.short] = f
        if len(by) != 4:
            ctx.ob(key, 'derived impl of %s found in the MIR dump' % name, False, str(list(by)))
            continue
        members = [t for _, t in fields]
        check_member_seq(ctx, key, name + '::reads', by['reads'], members, 'reads')
        check_member_seq(ctx, key, name + '::writes', by['writes'], members, 'writes')
        check_member_calls(ctx, key, name + '::setup', by['setup'], members, 'setup')
        r = check_member_calls(ctx, key, name + '::fetch', by['fetch'], members, 'fetch')
        if r:
            o, cs = r
            # a zero-sized member (PhantomData, ()) has one value: MIR materialises it as a constant
            ok = isinstance(o.value, Agg) and len(o.value.fields) == len(members) == len(cs) and all(
                isinstance(o.value.fields[i], Cst) or ctx.valid('%s field %d' % (name, i), to_term(o.value.fields[i]) == cs[i].result) for i in range(len(members)))
            ctx.ob(key, '%s::fetch: field i of the result is member i\'s fetched value' % name, ok, repr(o.value))


SPECS = {
    'C06': [('tuple impls (26 arities x setup/fetch/reads/writes)', spec_c06_tuples),
            ('leaf impls, accessors, setup handlers', spec_c06_leaves),
            ('derive samples', spec_c06_derive)],
}


def confirm_native(pid, key):
    """Runs the native confirmation program for a failed obligation key, if one exists.
    Returns (status, text): confirmed | refuted | none"""
    from . import confirm
    return confirm.run(pid, key)


def run_part(pid, part, tier, report, known):
    ctx = Ctx(pid)
    ctx.loop_bound = 5 if tier == 'thorough' else 3
    t0 = time.time()
    incon = []
    names = part.get('specs')
    todo = [(n, globals()[n]) for n in names] if names else SPECS[pid]
    for entry in todo:
        title, fn = entry[0], entry[1]
        n0 = len(ctx.obligations)
        try:
            fn(ctx)
        except M.Unsupported as e:
            incon.append('E2 %s: %s' % (title, e))
        except Exception as e:                      # a specification must never take the check down: undecided, not a verdict
            import traceback
            incon.append('E2 %s: internal error while evaluating the specification on this tree (%s: %s at %s)' % (
                title, type(e).__name__, e, traceback.format_exc().strip().splitlines()[-3].strip()[:120]))
        if len(entry) > 2:
            # only the clauses of this specification that concern the property (entry[2]: predicate on the clause text)
            ctx.obligations[n0:] = [o for o in ctx.obligations[n0:] if entry[2](o['name'])]
    # cvc5 cross-check of every z3 verdict
    bad, n_x, t_x = ctx.prover.cross_check(None if tier == 'thorough' else 400)
    for name, a, b in bad:
        if b.startswith('error') or b in ('unknown', 'timeout'):
            continue
        incon.append('solver disagreement on "%s": z3 %s, cvc5 %s' % (name, a, b))
    failed = [o for o in ctx.obligations if not o['ok']]
    violations, known_hits = [], []
    evdir = os.path.join(VERIF, 'evidence', 'replay')
    os.makedirs(evdir, exist_ok=True)
    by_key = {}
    for o in failed:
        by_key.setdefault(o['key'], []).append(o)
    open_known = [f for f in known if f['property'] == pid and f.get('status', 'open') == 'open']
    for key, obs in sorted(by_key.items()):
        status, text = confirm_native(pid, key)
        rec = {'engine': 'mir', 'property': pid, 'key': key, 'failed_obligations': obs, 'native_confirmation': status,
               'native_output': text[-2000:], 'how_to_replay': 'python3-vt run_check.py --replay <this file> re-runs the symbolic execution of the functions behind this key on the current tree and the native confirmation'}
        path = os.path.join(evdir, '%s_mir_%s.json' % (pid, re.sub(r'\W+', '_', key)))
        json.dump(rec, open(path, 'w'), indent=1)
        report['counterexamples'].append({'key': key, 'obligations': [o['name'] + (': ' + o['detail'] if o['detail'] else '') for o in obs][:6], 'native_confirmation': status})
        if status == 'refuted':
            incon.append('E2 obligation group "%s" failed but the native confirmation passes (encoding too strict?): %s' % (key, obs[0]['name']))
            continue
        kf = [f for f in open_known if f['key'] == key]
        if kf:
            known_hits.append((kf[0], path))
        else:
            violations.append((key, '; '.join(o['name'] + (' [' + o['detail'][:160] + ']' if o['detail'] else '') for o in obs[:3]), path))
    nq = len(ctx.prover.queries) + ctx.stats['feasibility_queries']
    report['mir_queries'] = report.get('mir_queries', 0) + nq
    report['mir_functions'] = report.get('mir_functions', 0) + len(set(ctx.functions))
    report['mir_function_names'] = report.get('mir_function_names', []) + sorted(set(re.sub(r'^.*?<impl at ', '<impl at ', f) for f in ctx.functions))[:400]
    report['mir_time'] = round(report.get('mir_time', 0.0) + ctx.prover.z3_time + ctx.stats['solver_s'], 2)
    report['mir_samples'] = report.get('mir_samples', []) + [{'obligation': o['name'], 'holds': o['ok']} for o in ctx.obligations[:3] + ctx.obligations[-3:]]
    report['mir'] = {'obligations': len(ctx.obligations), 'obligations_holding': len(ctx.obligations) - len(failed),
                     'z3_validity_queries': len(ctx.prover.queries), 'path_feasibility_queries': ctx.stats['feasibility_queries'],
                     'cvc5_cross_checked': n_x, 'cvc5_disagreements': len(bad), 'cvc5_time_s': round(t_x, 1),
                     'mir_dump_s': round(ctx.dump_s, 1), 'wall_s': round(time.time() - t0, 1),
                     'loop_unrolling': ctx.loop_bound, 'functions_with_reduced_unrolling': getattr(ctx, 'reduced_unrolling', {}), 'failed': [o['name'] for o in failed][:20],
                     'refactored_functions_judged_on_baseline_body': getattr(ctx, 'equiv_notes', [])}
    return violations, known_hits, incon


# ================================================================================================
# generic helpers for forwarding / loop shaped bodies

def fidx(path, struct, field):
    """MIR field index (= declaration order) of `field` in `struct` defined in /repo/<path>."""
    src = open(os.path.join('/repo', path)).read()
    m = re.search(r'struct %s\b[^{;]*\{(.*?)\n\}' % re.escape(struct), src, re.S)
    if not m:
        raise M.Unsupported('struct %s not found in %s' % (struct, path))
    names = []
    skip = False
    for ln in m.group(1).split('\n'):
        t = ln.strip()
        c = re.match(r'#\[cfg\((not\()?feature = "(\w+)"\)?\)\]', t)
        if c:
            on = c.group(2) in ('parallel', 'shred-derive')      # features of the default dump
            skip = (not on) if not c.group(1) else on
            continue
        mm = re.match(r'\s*(?:pub(?:\([^)]*\))?\s+)?(\w+)\s*:', ln)
        if mm and not t.startswith(('//', '#')):
            if not skip:
                names.append(mm.group(1))
            skip = False
    # cfg-gated fields keep their position when the feature is on (default features in the dump)
    if field not in names:
        raise M.Unsupported('field %s not in struct %s' % (field, struct))
    return names.index(field)


def self_field(i, by_ref=True, param=1):
    """term of `&mut self.field_i` (by_ref) or of `self.field_i` moved out of a by-value self"""
    if by_ref:
        return M.f_ref(M.f_fld(M.f_deref(P(param)), i))
    return M.f_fld(P(param), i)


NOISE = r"as Deref(Mut)?>::deref(_mut)?$|core::fmt::|Arguments::<|::type_name::<|^drop$|tynm::|as Borrow<|eprint"


def sig(o, noise=NOISE):
    return [e for e in o.trace if not re.search(noise, e.callee)]


def match_calls(ctx, key, what, o, pats, noise=NOISE):
    cs = sig(o, noise)
    ok = len(cs) == len(pats) and all(re.search(p, e.callee) for e, p in zip(cs, pats))
    ctx.ob(key, '%s: calls are exactly %s' % (what, [p[:50] for p in pats]), ok, '' if ok else 'got %s' % [e.callee[:90] for e in cs])
    return cs if ok else None


def arg_is(ctx, key, what, e, i, term):
    ok = i < len(e.args) and ctx.valid(what, e.args[i] == term)
    ctx.ob(key, '%s: argument %d of %s is %s' % (what, i, e.callee[:50], term), ok, '' if ok else 'got %s' % (e.args[i] if i < len(e.args) else 'nothing'))
    return ok


def loop_spec(ctx, key, what, fn, prefix, iter_pat, iterable, body_pat, body_extra_args=(), min_paths=3):
    """Body = prefix calls; into_iter/iter_mut(iterable); then per item exactly one body call on that item.
    Checked on every path up to the unrolling bound (0..k items)."""
    outs = ctx.run(fn)
    rets = returns(outs)
    ok_n = len(rets) >= min_paths and all(o.kind in ('return', 'bound') for o in outs)
    ctx.ob(key, '%s: only normal paths (one per item count up to the unrolling bound)' % what, ok_n, '%d return, kinds %s' % (len(rets), sorted(set(o.kind + ':' + o.detail[:30] for o in outs))))
    all_ok = True
    for o in rets:
        cs = sig(o)
        n_pre = len(prefix)
        ok = len(cs) >= n_pre + 2 and all(re.search(p, e.callee) for e, p in zip(cs, prefix)) and re.search(iter_pat, cs[n_pre].callee)
        if ok and iterable is not None:
            ok = ctx.valid(what + ' iterable', cs[n_pre].args[0] == iterable)
        rest = cs[n_pre + 1:] if ok else []
        # rest = next, (body, next)*
        k = 0
        items = []
        while ok and k < len(rest):
            if not re.search(r'as Iterator>::next$', rest[k].callee):
                ok = False
                break
            if k + 1 < len(rest):
                b = rest[k + 1]
                item = M.f_fld(M.mk_fn('as_Some', 1)(rest[k].result), 0)
                # the body operates on the yielded item (possibly through `&mut **item`)
                if not re.search(body_pat, b.callee) or not (ctx.valid(what + ' item', b.args[0] == item) or term_contains(b.args[0], item)):
                    ok = False
                    break
                for j, t in enumerate(body_extra_args):
                    if not ctx.valid(what + ' extra', b.args[1 + j] == t):
                        ok = False
                items.append(b)
            k += 2
        if not ok:
            all_ok = False
            ctx.ob(key, '%s: shape prefix; iterate; one body call per item' % what, False, 'path: %s' % [e.callee[:70] for e in cs])
            break
    if all_ok:
        ctx.ob(key, '%s: %s, then exactly one %s per item of the iterated collection, nothing else' % (what, [p[:40] for p in prefix] or 'no prefix', body_pat[:50]), True)
    return all_ok


def term_contains(t, sub):
    if t.eq(sub):
        return True
    return any(term_contains(c, sub) for c in t.children())


def final_heap(o, base_term, path):
    """value written to a place behind an opaque pointer, or None"""
    slots = o.st.store.get(('H', str(base_term)), {})
    return slots.get(tuple(path))


# ================================================================================================
# builder glue: C02 C03 C04 C07 C11 C12 C18

BUILDER = r"^src/dispatch/builder.rs: impl<'a, 'b> DispatcherBuilder<'a, 'b>"
SB = r"^src/dispatch/stage.rs: impl<'a> StagesBuilder<'a>"


def spec_add_barrier(ctx):
    key = 'builder-add_barrier'
    i_sb = fidx('src/dispatch/builder.rs', 'DispatcherBuilder', 'stages_builder')
    o = straight(ctx, key, ctx.one(BUILDER, 'add_barrier'), 'DispatcherBuilder::add_barrier')
    if o:
        cs = match_calls(ctx, key, 'DispatcherBuilder::add_barrier', o, [r'^StagesBuilder::<.*>::add_barrier$'])
        if cs:
            arg_is(ctx, key, 'DispatcherBuilder::add_barrier', cs[0], 0, self_field(i_sb))
    o = straight(ctx, key, ctx.one(BUILDER, 'with_barrier'), 'DispatcherBuilder::with_barrier')
    if o:
        match_calls(ctx, key, 'DispatcherBuilder::with_barrier', o, [r'DispatcherBuilder::<.*>::add_barrier$'])
    i_bar = fidx('src/dispatch/stage.rs', 'StagesBuilder', 'barrier')
    i_st = fidx('src/dispatch/stage.rs', 'StagesBuilder', 'stages')
    o = straight(ctx, key, ctx.one(SB, 'add_barrier'), 'StagesBuilder::add_barrier')
    if o:
        cs = match_calls(ctx, key, 'StagesBuilder::add_barrier', o, [r'^Vec::<Stage<.*>>::len$'])
        if cs:
            arg_is(ctx, key, 'StagesBuilder::add_barrier', cs[0], 0, self_field(i_st))
            v = final_heap(o, M.f_deref(P(1)), [i_bar])
            ok = v is not None and ctx.valid('barrier := stages.len()', to_term(v) == cs[0].result)
            ctx.ob(key, 'StagesBuilder::add_barrier: barrier := number of stages that exist now', ok, repr(v))


def spec_add(ctx):
    key = 'builder-add'
    f = ctx.one(BUILDER, 'add')
    outs = ctx.run(f)
    i_sb = fidx('src/dispatch/builder.rs', 'DispatcherBuilder', 'stages_builder')
    i_map = fidx('src/dispatch/builder.rs', 'DispatcherBuilder', 'map')
    outs = [o for o in outs if o.kind != 'bound']
    chain = any(re.search(r'as Iterator>::collect::<SmallVec<\[SystemId; 4\]>>$', e.callee) for o in outs for e in o.trace)
    rets, divs = returns(outs), [o for o in outs if o.kind == 'diverge']
    if chain:
        ctx.ob(key, 'add: two normal paths (empty name / fresh name) and one rejection (name already used)', len(rets) == 2 and len(divs) == 1 and len(outs) == 3,
               str([(o.kind, o.detail, o.st.decisions) for o in outs]))
    recorded = 0
    for o in outs:
        cs = sig(o)
        names = [e.callee for e in cs]
        ids = [e for e in cs if re.search(r'DispatcherBuilder::<.*>::next_id$', e.callee)]
        MUT = r'HashMap::<String, SystemId.*>::(insert|remove|remove_entry|clear|retain|drain|get_mut|extend|try_insert)$|(Vacant|Occupied)Entry::<.*>::(insert|insert_entry|remove|remove_entry)$'
        mp = [i for i, e in enumerate(cs) if re.search(r'HashMap::<String, SystemId.*>::entry$', e.callee) or re.search(MUT, e.callee)]
        muts = [e for e in cs if re.search(MUT, e.callee)]
        ins = [e for e in cs if re.search(r'^StagesBuilder::<.*>::insert::<T>$', e.callee)]
        if chain:
            # dependencies = dep.iter().map(lookup).collect()
            coll = [i for i, e in enumerate(cs) if re.search(r'as Iterator>::collect::<SmallVec<\[SystemId; 4\]>>$', e.callee)]
            ok = len(ids) == 1 and len(coll) == 1
            ctx.ob(key, 'add: takes exactly one fresh id and resolves the dependency list exactly once on every path', ok, str(names))
            if not ok:
                continue
            dep_end, deps_term = coll[0], cs[coll[0]].result
            mapc = [e for e in cs if re.search(r'as Iterator>::map::<SystemId, \{closure@src/dispatch/builder.rs', e.callee)]
            it = [e for e in cs if re.search(r'impl \[&str\]>::iter$', e.callee)]
            ok = len(mapc) == 1 and len(it) == 1 and ctx.valid('deps iter', it[0].args[0] == P(4)) and ctx.valid('deps map', mapc[0].args[0] == it[0].result) \
                and ctx.valid('deps collect', cs[coll[0]].args[0] == mapc[0].result)
            ctx.ob(key, 'add: dependencies = dep.iter().map(lookup).collect() over the dep slice passed in', ok)
        else:
            # dependencies collected by an explicit loop: one lookup and one push per name of the dep slice
            new = [e for e in cs if re.search(r'^SmallVec::<\[SystemId; 4\]>::(new|with_capacity)$', e.callee)]
            it = [e for e in cs if re.search(r'<&\[&str\] as IntoIterator>::into_iter$|impl \[&str\]>::iter$', e.callee)]
            nx = [e for e in cs if re.search(r"<std::slice::Iter<'_, &str> as Iterator>::next$", e.callee)]
            gets = [e for e in cs if re.search(r'HashMap::<String, SystemId.*>::get::<str>$', e.callee)]
            pushes = [e for e in cs if re.search(r'^SmallVec::<\[SystemId; 4\]>::push$', e.callee)]
            ok = len(ids) == 1 and len(new) == 1 and len(it) == 1 and ctx.valid('deps iter', it[0].args[0] == P(4))
            ctx.ob(key, 'add: takes exactly one fresh id and walks the dep slice passed in exactly once on every path', ok, str(names))
            if not ok:
                continue
            somes = [e for e in nx if any(str(w) == 'disc(%s)' % e.result and k == 1 for w, k in o.st.decisions)]
            unknown_dep = o.kind == 'diverge' and gets and cs.index(gets[-1]) > (mp[0] if mp else -1) and not mp
            okl = len(gets) == len(somes) and all(term_contains(g.args[1], n.result) for g, n in zip(gets, somes)) \
                and all(term_contains(g.args[0], M.f_fld(M.f_deref(P(1)), i_map)) for g in gets) \
                and (len(pushes) == len(gets) or (unknown_dep and len(pushes) == len(gets) - 1))
            ctx.ob(key, 'add: every dependency name is looked up once in this builder\'s name map and the id found is collected', okl, str(names))
            dep_end = max([cs.index(e) for e in gets + pushes + nx] or [0])
            deps_term = new[0].result
            if unknown_dep:
                txt = ' '.join(a.text for e in o.trace for a in e.argvals if isinstance(a, Cst))
                ctx.ob(key, 'add: an unknown dependency panics with "No such system registered" before anything is inserted', 'No such system registered' in txt and not ins, txt[:160])
                continue
        # dependencies are resolved before the new name enters the map (C18: self-dependency is "not registered")
        ctx.ob(key, 'add: the dependency names are resolved before the name map is touched', all(i > dep_end for i in mp), str(names))
        if o.kind == 'return':
            ok = len(ins) == 1 and ctx.valid('insert self', ins[0].args[0] == self_field(i_sb)) and ctx.valid('insert deps', ins[0].args[1] == deps_term) \
                and ctx.valid('insert id', ins[0].args[2] == ids[0].result) and ctx.valid('insert sys', ins[0].args[3] == P(2)) and cs[-1] is ins[0]
            ctx.ob(key, 'add: ends with stages_builder.insert(resolved deps, the fresh id, the system)', ok, str(names))
            ent = [e for e in cs if re.search(r'::entry$', e.callee)]
            if ent or muts:
                # the one write to the name map on this path records (name -> the fresh id): VacantEntry::insert(v, id) or HashMap::insert(map, key, id)
                ok = len(muts) == 1 and bool(ids) and (
                    (re.search(r'VacantEntry::<.*>::insert$', muts[0].callee) and ctx.valid('map id', muts[0].args[1] == ids[0].result)) or
                    (re.search(r'HashMap::<String, SystemId.*>::insert$', muts[0].callee) and len(muts[0].args) > 2 and ctx.valid('map id', muts[0].args[2] == ids[0].result)))
                ctx.ob(key, 'add: a fresh non-empty name is recorded with the same id that is handed to insert', bool(ok), str(names))
                recorded += 1
                # ... under the name as given: the key is an owned copy of the `name` parameter itself (the dependency lookup,
                # has_system and contains use the raw name: a transformed key would make well-formed registrations fail)
                OWN = r"^<str as ToOwned>::to_owned$|^<str as ToString>::to_string$|^<String as From<&str>>::from$|^<&str as Into<String>>::into$|^core::str::<impl str>::to_string$|^String::from$"
                keyed = [e for e in cs if re.search(r'HashMap::<String, SystemId.*>::(entry|insert|try_insert)$', e.callee)]
                okk, whyk = bool(keyed), 'no keyed write'
                for e in keyed:
                    src = [c for c in cs if e.args[1].eq(c.result)]
                    if not (len(src) == 1 and re.search(OWN, src[0].callee) and src[0].args and src[0].args[0].eq(P(3))):
                        okk, whyk = False, 'key of %s is %s' % (e.callee[:40], [(c.callee[:60], [str(a) for a in c.args]) for c in src] or str(e.args[1]))
                ctx.ob(key, 'add: the name map is keyed by the name exactly as given (an owned copy of the name parameter)', okk, '' if okk else whyk)
            else:
                ctx.ob(key, 'add: the empty name never touches the name map', not mp, str(names))
        else:
            ok = not ins and re.search(r'panic', o.detail) is not None
            ctx.ob(key, 'add: a reused name panics before anything is inserted', ok, o.detail)
            ctx.ob(key, 'add: a rejected registration leaves the name map as it was (no insert / remove / overwrite on the panicking path: the owner of the name keeps it)', not muts, str([e.callee for e in muts]))
            txt = ' '.join(a.text for e in o.trace for a in e.argvals if isinstance(a, Cst))
            ctx.ob(key, 'add: the duplicate-name message quotes the name', 'Cannot insert multiple systems with the same name' in txt and
                   any(re.search(r'new_display::<&str>$', e.callee) for e in o.trace), txt[:200])
    ctx.ob(key, 'add: exactly one normal path records the new name (the other one is the empty name)', recorded == 1 or not chain, '%d recording paths' % recorded)
    if chain:
        # dependency lookup closure: *map.get(name).unwrap_or_else(panic quoting the name)
        cl = [f2 for f2 in ctx.fns() if f2.name.endswith('::add::{closure#0}') and 'builder.rs' in f2.name]
        cl2 = [f2 for f2 in ctx.fns() if f2.name.endswith('::add::{closure#0}::{closure#0}') and 'builder.rs' in f2.name]
        ctx.ob(key, 'add: lookup closure and its panic closure present', len(cl) == 1 and len(cl2) == 1)
        if len(cl) == 1:
            o = straight(ctx, key, cl[0], 'add::lookup')
            if o:
                cs = match_calls(ctx, key, 'add::lookup', o, [r'HashMap::<String, SystemId.*>::get::<str>$', r'Option::<&SystemId>::unwrap_or_else::<'])
                if cs:
                    ctx.ob(key, 'add::lookup: the id returned is the one stored under that name', ctx.valid('lookup', cs[1].args[0] == cs[0].result))
        if len(cl2) == 1:
            outs2 = ctx.run(cl2[0])
            ok = len(outs2) == 1 and outs2[0].kind == 'diverge'
            txt = ' '.join(a.text for e in outs2[0].trace for a in e.argvals if isinstance(a, Cst)) if outs2 else ''
            ctx.ob(key, 'add::lookup: an unknown dependency panics with "No such system registered" quoting it', ok and 'No such system registered' in txt, txt[:200])
    o = straight(ctx, key, ctx.one(BUILDER, 'next_id'), 'next_id')
    if o:
        i_cur = fidx('src/dispatch/builder.rs', 'DispatcherBuilder', 'current_id')
        v = final_heap(o, M.f_deref(P(1)), [i_cur])
        ok = v is not None and 'op_Add' in str(to_term(v)) and isinstance(o.value, Agg) and ctx.valid('id', to_term(o.value.fields[0]) == M.f_fld(M.f_deref(P(1)), i_cur))
        ctx.ob(key, 'next_id: returns the current counter and increments it (ids are never reused)', ok, '%r / %r' % (o.value, v))
    for nm in ('with',):
        o = straight(ctx, key, ctx.one(BUILDER, nm), nm)
        if o:
            match_calls(ctx, key, 'DispatcherBuilder::with', o, [r'DispatcherBuilder::<.*>::add::<T>$'])


def spec_add_batch(ctx):
    key = 'builder-add_batch'
    f = ctx.one(BUILDER, 'add_batch')
    o = straight(ctx, key, f, 'add_batch')
    if not o:
        return
    i_sb = fidx('src/dispatch/builder.rs', 'DispatcherBuilder', 'stages_builder')
    i_tp = fidx('src/dispatch/builder.rs', 'DispatcherBuilder', 'thread_pool')
    cs = sig(o)
    def one(pat):
        l = [e for e in cs if re.search(pat, e.callee)]
        return l[0] if len(l) == 1 else None
    far, faw = one(r'StagesBuilder::<.*>::fetch_all_reads$'), one(r'StagesBuilder::<.*>::fetch_all_writes$')
    cr, cw = one(r"BatchSystemData as (system::)?SystemData<'_>>::reads$"), one(r"BatchSystemData as (system::)?SystemData<'_>>::writes$")
    acc, bld = one(r'^BatchAccessor::new$'), one(r'^DispatcherBuilder::<.*>::build$')
    cre, add = one(r'^BatchControllerSystem::<.*>::create$'), one(r'^DispatcherBuilder::<.*>::add::<BatchControllerSystem<')
    ok = all(x is not None for x in (far, faw, cr, cw, acc, bld, cre, add))
    ctx.ob(key, 'add_batch: collects inner reads/writes and controller reads/writes once each, builds one accessor, one inner dispatcher, one wrapper, registers it once', ok, str([e.callee[:60] for e in cs]))
    if not ok:
        return
    inner_sb = M.f_ref(M.f_fld(z3.Const('local__3', V), i_sb))
    ctx.ob(key, 'add_batch: reads/writes are collected from the inner builder that was passed in', ctx.valid('far', far.args[0] == inner_sb) and ctx.valid('faw', faw.args[0] == inner_sb))
    r, w = f_seqof(far.result), f_seqof(cr.result)
    okr = ctx.valid('batch reads', z3.Or(f_seqof(acc.args[0]) == z3.Concat(f_seqof(far.result), f_seqof(cr.result)), f_seqof(acc.args[0]) == z3.Concat(f_seqof(cr.result), f_seqof(far.result))),
                    [z3.ForAll([z3.Const('s', SeqR)], f_seqof(M.f_seqval(z3.Const('s', SeqR))) == z3.Const('s', SeqR))])
    okw = ctx.valid('batch writes', z3.Or(f_seqof(acc.args[1]) == z3.Concat(f_seqof(faw.result), f_seqof(cw.result)), f_seqof(acc.args[1]) == z3.Concat(f_seqof(cw.result), f_seqof(faw.result))),
                    [z3.ForAll([z3.Const('s', SeqR)], f_seqof(M.f_seqval(z3.Const('s', SeqR))) == z3.Const('s', SeqR))])
    ctx.ob(key, 'add_batch: accessor reads = inner reads ++ controller reads (reads slot)', okr, str(acc.args[0]))
    ctx.ob(key, 'add_batch: accessor writes = inner writes ++ controller writes (writes slot)', okw, str(acc.args[1]))
    # nothing but sort / dedup may touch the two lists before they are frozen
    allowed = r'fetch_all_(reads|writes)$|SystemData<\'_>>::(reads|writes)$|impl \[(world::)?ResourceId\]>::sort(_unstable)?$|Vec::<(world::)?ResourceId>::dedup$|^BatchAccessor::new$|DispatcherBuilder::<.*>::build$|BatchControllerSystem::<.*>::create$|DispatcherBuilder::<.*>::add::<|as Clone>::clone$'
    extra = [e.callee for e in cs if not re.search(allowed, e.callee)]
    ctx.ob(key, 'add_batch: the collected lists are only sorted and de-duplicated (membership preserving) before they are frozen', not extra, str(extra))
    ctx.ob(key, 'add_batch: both lists are sorted and de-duplicated', len([e for e in cs if re.search(r'>::sort(_unstable)?$', e.callee)]) == 2 and len([e for e in cs if re.search(r'::dedup$', e.callee)]) == 2)
    ctx.ob(key, 'add_batch: the inner dispatcher is built from the inner builder', ctx.valid('bld', bld.args[0] == P(3)) or 'local__3' in str(bld.args[0]), str(bld.args[0]))
    ok = ctx.valid('create acc', cre.args[0] == acc.result) and ctx.valid('create ctl', cre.args[1] == P(2)) and ctx.valid('create disp', cre.args[2] == bld.result)
    ctx.ob(key, 'add_batch: wrapper = create(that accessor, the controller, that inner dispatcher)', ok)
    ok = ctx.valid('add self', add.args[0] == P(1)) and ctx.valid('add sys', add.args[1] == cre.result) and ctx.valid('add name', add.args[2] == P(4)) and ctx.valid('add dep', add.args[3] == P(5))
    ctx.ob(key, 'add_batch: the wrapper is registered through the ordinary add with the given name and dependencies', ok)
    # C11: the inner builder shares the outer pool handle
    cl = one(r'^<Arc<std::sync::RwLock<Option<Arc<(rayon::)?ThreadPool>>>> as Clone>::clone$')
    v = o.st.store.get(('L', '_3'), {}).get((i_tp,))
    ok = cl is not None and ctx.valid('pool src', cl.args[0] == self_field(i_tp)) and v is not None and ctx.valid('pool dst', to_term(v) == cl.result) \
        and cs.index(cl) < cs.index(bld)
    ctx.ob(key, 'add_batch: the inner builder\'s pool handle is replaced by a clone of the outer Arc before it is built (shared pool)', ok, repr(v))
    o2 = straight(ctx, key, ctx.one(BUILDER, 'with_batch'), 'with_batch')
    if o2:
        match_calls(ctx, key, 'with_batch', o2, [r'DispatcherBuilder::<.*>::add_batch::<T>$'])


def spec_batch_wrapper(ctx):
    key = 'batch-wrapper'
    BCS = r"System<'c> for BatchControllerSystem<'a, 'b, C>"
    i_acc = fidx('src/dispatch/batch.rs', 'BatchControllerSystem', 'accessor')
    i_ctl = fidx('src/dispatch/batch.rs', 'BatchControllerSystem', 'controller')
    i_dsp = fidx('src/dispatch/batch.rs', 'BatchControllerSystem', 'dispatcher')
    o = straight(ctx, key, ctx.one(BCS, 'run'), 'BatchControllerSystem::run')
    if o:
        cs = match_calls(ctx, key, 'BatchControllerSystem::run', o, [r"^<C as BatchController<'_, '_, '_>>::run$"])
        if cs:
            arg_is(ctx, key, 'run', cs[0], 0, self_field(i_ctl))
            arg_is(ctx, key, 'run', cs[0], 1, M.f_fld(P(2), 0))
            arg_is(ctx, key, 'run', cs[0], 2, self_field(i_dsp))
    o = straight(ctx, key, ctx.one(BCS, 'accessor'), 'BatchControllerSystem::accessor')
    if o:
        ok = not sig(o) and isinstance(o.value, Agg) and o.value.variant == 'Ref' and ctx.valid('acc', to_term(o.value.fields[0]) == self_field(i_acc))
        ctx.ob(key, 'BatchControllerSystem::accessor: hands out the frozen accessor by reference, computes nothing', ok, repr(o.value))
    o = straight(ctx, key, ctx.one(BCS, 'running_time'), 'BatchControllerSystem::running_time')
    if o:
        match_calls(ctx, key, 'BatchControllerSystem::running_time', o, [r"^<C as BatchController<'_, '_, '_>>::running_time$"])
    BA = r'Accessor for BatchAccessor'
    for nm, idx in (('reads', fidx('src/dispatch/batch.rs', 'BatchAccessor', 'reads')), ('writes', fidx('src/dispatch/batch.rs', 'BatchAccessor', 'writes'))):
        o = straight(ctx, key, ctx.one(BA, nm), 'BatchAccessor::' + nm)
        if o:
            ok = not sig(o) and isinstance(o.value, SeqV) and ctx.valid('ba ' + nm, o.value.seq == f_seqof(M.f_fld(M.f_deref(P(1)), idx)))
            ctx.ob(key, 'BatchAccessor::%s returns a copy of the %s it was built with' % (nm, nm), ok, repr(o.value))
    o = straight(ctx, key, ctx.one(r'^src/dispatch/batch.rs: impl BatchAccessor', 'new'), 'BatchAccessor::new')
    if o:
        ok = isinstance(o.value, Agg) and not sig(o) and ctx.valid('new r', to_term(o.value.fields[fidx('src/dispatch/batch.rs', 'BatchAccessor', 'reads')]) == P(1)) \
            and ctx.valid('new w', to_term(o.value.fields[fidx('src/dispatch/batch.rs', 'BatchAccessor', 'writes')]) == P(2))
        ctx.ob(key, 'BatchAccessor::new stores (reads, writes) in that order', ok, repr(o.value))
    BU = r"DynamicSystemData<'a> for BatchUncheckedWorld<'a>"
    o = straight(ctx, key, ctx.one(BU, 'fetch'), 'BatchUncheckedWorld::fetch')
    if o:
        ok = not sig(o) and isinstance(o.value, Agg) and ctx.valid('buw', to_term(o.value.fields[0]) == P(2))
        ctx.ob(key, 'BatchUncheckedWorld::fetch borrows nothing and wraps the world', ok, repr(o.value))
    o = straight(ctx, key, ctx.one(BU, 'setup'), 'BatchUncheckedWorld::setup')
    if o:
        ctx.ob(key, 'BatchUncheckedWorld::setup does nothing', not sig(o))
    cre = [f for f in ctx.fns() if f.short == 'create' and 'batch.rs' in f.name]
    if len(cre) == 1:
        o = straight(ctx, key, cre[0], 'BatchControllerSystem::create')
        if o:
            ok = isinstance(o.value, Agg) and not sig(o) and all(ctx.valid('create', to_term(o.value.fields[i]) == P(j)) for i, j in ((i_acc, 1), (i_ctl, 2), (i_dsp, 3)))
            ctx.ob(key, 'BatchControllerSystem::create stores accessor, controller, dispatcher unchanged', ok, repr(o.value))


def spec_batch_setup_dispose(ctx):
    BCS = r"System<'c> for BatchControllerSystem<'a, 'b, C>"
    i_dsp = fidx('src/dispatch/batch.rs', 'BatchControllerSystem', 'dispatcher')
    key = 'batch-setup'
    o = straight(ctx, key, ctx.one(BCS, 'setup'), 'BatchControllerSystem::setup')
    if o:
        cs = match_calls(ctx, key, 'BatchControllerSystem::setup', o, [r"World::setup::<'_, <C as BatchController<'_, '_, '_>>::BatchSystemData>$", r'^Dispatcher::<.*>::setup$'])
        if cs:
            arg_is(ctx, key, 'setup', cs[0], 0, P(2))
            arg_is(ctx, key, 'setup', cs[1], 0, self_field(i_dsp))
            arg_is(ctx, key, 'setup', cs[1], 1, P(2))
    key = 'batch-dispose'
    fs = ctx.find(BCS, 'dispose', optional=True)
    ctx.ob(key, 'BatchControllerSystem overrides System::dispose (the default does nothing, so systems inside a batch would never be disposed)', len(fs) == 1,
           'no dispose in impl System for BatchControllerSystem' if not fs else '')
    if len(fs) == 1:
        o = straight(ctx, key, fs[0], 'BatchControllerSystem::dispose')
        if o:
            cs = match_calls(ctx, key, 'BatchControllerSystem::dispose', o, [r'^Dispatcher::<.*>::dispose$'])
            if cs:
                arg_is(ctx, key, 'dispose', cs[0], 0, M.f_fld(P(1), i_dsp))
                arg_is(ctx, key, 'dispose', cs[0], 1, P(2))


def spec_forwarders(ctx):
    """RunNow blanket impl, Dispatcher / SendDispatcher / Stage fan-out (C04, C12, C13)."""
    key = 'runnow-blanket'
    RN = r"^src/system.rs: impl<'a, T> RunNow<'a> for T"
    o = straight(ctx, key, ctx.one(RN, 'setup'), 'RunNow::setup')
    if o:
        cs = match_calls(ctx, key, '<T as RunNow>::setup', o, [r"^<T as (system::)?System<'_>>::setup$"])
        if cs:
            arg_is(ctx, key, 'setup', cs[0], 0, P(1)); arg_is(ctx, key, 'setup', cs[0], 1, P(2))
    outs = ctx.run(ctx.one(RN, 'dispose'))
    rets = returns(outs)
    ok = len(rets) >= 1 and all(len([e for e in sig(r) if re.search(r"^<T as (system::)?System<'_>>::dispose$", e.callee)]) == 1 for r in rets)
    ctx.ob(key, '<T as RunNow>::dispose hands the unboxed system to System::dispose exactly once', ok, str([[e.callee for e in sig(r)] for r in rets][:2]))
    for r in rets:
        for e in sig(r):
            if re.search(r"System<'_>>::dispose$", e.callee):
                ctx.ob(key, '<T as RunNow>::dispose passes the world on', ctx.valid('dispose world', e.args[1] == P(2)))
    o = straight(ctx, key, ctx.one(RN, 'run_now'), 'RunNow::run_now')
    if o:
        cs = match_calls(ctx, key, '<T as RunNow>::run_now', o, [r"^<T as (system::)?System<'_>>::accessor$", r"SystemData as DynamicSystemData<'_>>::fetch$", r"^<T as (system::)?System<'_>>::run$"])
        if cs:
            ctx.ob(key, 'run_now: fetches from the world passed in and runs the system on exactly that data', ctx.valid('rn', cs[1].args[1] == P(2)) and ctx.valid('rn2', cs[2].args[0] == P(1)) and ctx.valid('rn3', cs[2].args[1] == cs[1].result))
    # Dispatcher
    D = r"^src/dispatch/dispatcher.rs: impl<'a> Dispatcher<'a, '_>"
    i_in = fidx('src/dispatch/dispatcher.rs', 'Dispatcher', 'inner')
    i_tl = fidx('src/dispatch/dispatcher.rs', 'Dispatcher', 'thread_local')
    key = 'dispatcher-dispatch'
    o = straight(ctx, key, ctx.one(D, 'dispatch'), 'Dispatcher::dispatch')
    if o:
        cs = match_calls(ctx, key, 'Dispatcher::dispatch', o, [r'^SendDispatcher::<.*>::dispatch$', r'^Dispatcher::<.*>::dispatch_thread_local$'])
        if cs:
            arg_is(ctx, key, 'dispatch', cs[0], 0, self_field(i_in)); arg_is(ctx, key, 'dispatch', cs[0], 1, P(2))
            arg_is(ctx, key, 'dispatch', cs[1], 0, P(1)); arg_is(ctx, key, 'dispatch', cs[1], 1, P(2))
    for nm, tgt in (('dispatch_par', r'^SendDispatcher::<.*>::dispatch_par$'), ('dispatch_seq', r'^SendDispatcher::<.*>::dispatch_seq$')):
        o = straight(ctx, key, ctx.one(D, nm), 'Dispatcher::' + nm)
        if o:
            cs = match_calls(ctx, key, 'Dispatcher::' + nm, o, [tgt])
            if cs:
                arg_is(ctx, key, nm, cs[0], 0, self_field(i_in))
    loop_spec(ctx, key, 'Dispatcher::dispatch_thread_local', ctx.one(D, 'dispatch_thread_local'), [], r'as IntoIterator>::into_iter$', self_field(i_tl),
              r"^<dyn for<'_> RunNow<'_> as RunNow<'_>>::run_now$", [P(2)])
    key = 'dispatcher-setup-dispose'
    loop_spec(ctx, key, 'Dispatcher::setup', ctx.one(D, 'setup'), [r'^SendDispatcher::<.*>::setup$'], r'as IntoIterator>::into_iter$', self_field(i_tl),
              r"^<dyn for<'_> RunNow<'_> as RunNow<'_>>::setup$", [P(2)])
    loop_spec(ctx, key, 'Dispatcher::dispose', ctx.one(D, 'dispose'), [r'^SendDispatcher::<.*>::dispose$'], r'as IntoIterator>::into_iter$', self_field(i_tl, False),
              r"^<dyn for<'_> RunNow<'_> as RunNow<'_>>::dispose$", [P(2)])
    key = 'dispatcher-sendable'
    outs = ctx.run(ctx.one(D, 'try_into_sendable'))
    rets = returns(outs)
    ok = len(rets) == 2 and len(outs) == 2
    ctx.ob(key, 'try_into_sendable: exactly two outcomes', ok, str([(o.kind, o.st.decisions) for o in outs]))
    if ok:
        for o in rets:
            emp = [e for e in sig(o) if re.search(r'SmallVec::<.*>::is_empty$', e.callee)]
            ok1 = len(emp) == 1 and len(sig(o)) == 1 and ctx.valid('tis arg', emp[0].args[0] == M.f_ref(M.f_fld(z3.Const('local__1', V), i_tl)))
            ctx.ob(key, 'try_into_sendable: decides on thread_local.is_empty() of this dispatcher and nothing else', ok1, str([e.callee for e in sig(o)]))
            if not ok1:
                continue
            dec = o.st.decisions[-1][1]
            if dec == 0:       # not empty
                ok2 = isinstance(o.value, Agg) and o.value.variant == 'Err' and ctx.valid('err', to_term(o.value.fields[0]) == P(1))
                ctx.ob(key, 'try_into_sendable: thread-local systems present => Err(the same dispatcher)', ok2, repr(o.value))
            else:
                ok2 = isinstance(o.value, Agg) and o.value.variant == 'Ok' and ctx.valid('okv', to_term(o.value.fields[0]) == M.f_fld(P(1), i_in))
                ctx.ob(key, 'try_into_sendable: no thread-local systems => Ok(the inner send-dispatcher, plan untouched)', ok2, repr(o.value))
    # SendDispatcher
    S = r'^src/dispatch/send_dispatcher.rs: impl SendDispatcher<'
    i_st = fidx('src/dispatch/send_dispatcher.rs', 'SendDispatcher', 'stages')
    key = 'send-dispatcher'
    o = straight(ctx, key, ctx.one(S, 'dispatch'), 'SendDispatcher::dispatch')
    if o:
        cs = match_calls(ctx, key, 'SendDispatcher::dispatch (parallel feature)', o, [r'^SendDispatcher::<.*>::dispatch_par$'])
        if cs:
            arg_is(ctx, key, 'dispatch', cs[0], 0, P(1)); arg_is(ctx, key, 'dispatch', cs[0], 1, P(2))
    loop_spec(ctx, key, 'SendDispatcher::setup', ctx.one(S, 'setup'), [], r'as IntoIterator>::into_iter$', self_field(i_st), r'^Stage::<.*>::setup$', [P(2)])
    loop_spec(ctx, key, 'SendDispatcher::dispose', ctx.one(S, 'dispose'), [], r'as IntoIterator>::into_iter$', self_field(i_st, False), r'^Stage::<.*>::dispose$', [P(2)])
    loop_spec(ctx, key, 'SendDispatcher::dispatch_seq', ctx.one(S, 'dispatch_seq'), [], r'as IntoIterator>::into_iter$', self_field(i_st), r'^Stage::<.*>::execute_seq$', [P(2)])
    # RunNow for Dispatcher / SendDispatcher
    for hdr, ty in ((r"^src/dispatch/dispatcher.rs: impl RunNow<'_> for Dispatcher", 'Dispatcher'), (r"^src/dispatch/send_dispatcher.rs: impl RunNow<'_> for SendDispatcher", 'SendDispatcher')):
        for nm in ('run_now', 'setup', 'dispose'):
            tgt = {'run_now': 'dispatch', 'setup': 'setup', 'dispose': 'dispose'}[nm]
            outs = ctx.run(ctx.one(hdr, nm))
            rets = returns(outs)
            ok = len(rets) >= 1 and all(len([e for e in sig(r) if re.search(r'^%s::<.*>::%s$' % (ty, tgt), e.callee)]) == 1 for r in rets)
            ctx.ob('runnow-dispatchers', '<%s as RunNow>::%s forwards to %s::%s exactly once' % (ty, nm, ty, tgt), ok, str([[e.callee for e in sig(r)] for r in rets][:2]))


def spec_multidispatcher(ctx):
    key = 'multi-dispatcher'
    f = ctx.one(r"BatchController<'a, 'b, 'c> for MultiDispatcher<C>", 'run')
    outs = ctx.run(f)
    rets = returns(outs)
    ctx.ob(key, 'MultiDispatcher::run: only normal paths', len(rets) >= 3 and all(o.kind in ('return', 'bound') for o in outs))
    ok_all = True
    for o in rets:
        cs = sig(o)
        pats = [r'World::system_data::<', r"^<C as MultiDispatchController<'_>>::plan$", r'<std::ops::Range<usize> as IntoIterator>::into_iter$']
        ok = len(cs) >= 4 and all(re.search(p, e.callee) for e, p in zip(cs, pats))
        if ok:
            rng = cs[2].argvals[0]
            ok = isinstance(rng, Agg) and isinstance(rng.fields[0], Cst) and rng.fields[0].text.startswith('0_usize') and ctx.valid('n', to_term(rng.fields[1]) == cs[1].result) \
                and ctx.valid('plan data', cs[1].args[1] == cs[0].result) and ctx.valid('sd world', cs[0].args[0] == P(2))
        rest = cs[3:] if ok else []
        k = 0
        while ok and k < len(rest):
            if not re.search(r'<std::ops::Range<usize> as Iterator>::next$', rest[k].callee):
                ok = False
            elif k + 1 < len(rest):
                b = rest[k + 1]
                ok = re.search(r'^Dispatcher::<.*>::dispatch$', b.callee) is not None and ctx.valid('md d', b.args[0] == P(3)) and ctx.valid('md w', b.args[1] == P(2))
            k += 2
        if not ok:
            ok_all = False
            ctx.ob(key, 'MultiDispatcher::run: n = plan(world.system_data()); for _ in 0..n { dispatcher.dispatch(world) }', False, str([e.callee[:60] for e in cs]))
            break
    if ok_all:
        ctx.ob(key, 'MultiDispatcher::run: n = plan(world.system_data()); exactly one inner dispatch per element of 0..n, nothing else', True)


def spec_stage_exec(ctx):
    """Stage::execute / execute_seq / SendDispatcher::dispatch_par structure (C01 C04 C11)."""
    key = 'stage-execute'
    ST = r"^src/dispatch/stage.rs: impl Stage<'_>"
    i_g = fidx('src/dispatch/stage.rs', 'Stage', 'groups')
    o = straight(ctx, key, ctx.one(ST, 'execute'), 'Stage::execute')
    if o:
        cs = match_calls(ctx, key, 'Stage::execute', o, [r'as (rayon::iter::)?IntoParallelRefMutIterator<\'_>>::par_iter_mut$', r'as (rayon::iter::)?ParallelIterator>::for_each::<\{closure@src/dispatch/stage.rs'],
                         noise=NOISE)
        if cs:
            ctx.ob(key, 'Stage::execute: the groups of this stage are handed to ONE parallel for_each (each group one job)', ctx.valid('pi', cs[1].args[0] == cs[0].result))
            cl = cs[1].argvals[1]
            ok = isinstance(cl, Agg) and len(cl.fields) == 1 and ctx.valid('cl world', to_term(cl.fields[0]) == M.f_ref(z3.Const('local__2', V))) or \
                (isinstance(cl, Agg) and len(cl.fields) == 1 and ctx.valid('cl world', to_term(cl.fields[0]) == P(2)))
            ctx.ob(key, 'Stage::execute: the job closure captures only the world', ok, repr(cl))
    cl = [f for f in ctx.fns() if f.name.endswith('::execute::{closure#0}') and 'stage.rs' in f.name]
    if len(cl) == 1:
        loop_spec(ctx, key, 'Stage::execute job', cl[0], [], r'as IntoIterator>::into_iter$', P(2), r"^<dyn for<'_> RunNow<'_> \+ Send as RunNow<'_>>::run_now$", [])
    else:
        ctx.ob(key, 'Stage::execute job closure found', False)
    o = straight(ctx, key, ctx.one(ST, 'max_threads'), 'Stage::max_threads')
    if o:
        cs = match_calls(ctx, key, 'Stage::max_threads', o, [r'SmallVec::<.*>::len$'])
        if cs:
            arg_is(ctx, key, 'max_threads', cs[0], 0, self_field(i_g))
            ctx.ob(key, 'Stage::max_threads = number of groups', ctx.valid('mt', to_term(o.value) == cs[0].result))
    key = 'send-dispatch-par'
    S = r'^src/dispatch/send_dispatcher.rs: impl SendDispatcher<'
    i_tp = fidx('src/dispatch/send_dispatcher.rs', 'SendDispatcher', 'thread_pool')
    i_st = fidx('src/dispatch/send_dispatcher.rs', 'SendDispatcher', 'stages')
    outs = ctx.run(ctx.one(S, 'dispatch_par'))
    rets = returns(outs)
    ok = len(rets) == 1
    ctx.ob(key, 'dispatch_par: one normal path', ok, str([(o.kind, o.detail) for o in outs]))
    if ok:
        o = rets[0]
        inst = [e for e in sig(o) if re.search(r'ThreadPool::install::<\{closure@src/dispatch/send_dispatcher.rs', e.callee)]
        rd = [e for e in sig(o) if re.search(r'RwLock::<.*>::read$', e.callee)]
        ok = len(inst) == 1 and len(rd) == 1 and not [e for e in sig(o) if re.search(r'Stage::<.*>::execute|ThreadPoolBuilder', e.callee)]
        ctx.ob(key, 'dispatch_par: everything runs inside ONE install on the pool read from this dispatcher\'s shared handle', ok, str([e.callee[:70] for e in sig(o)]))
        if ok:
            cl = inst[0].argvals[1]
            ok2 = isinstance(cl, Agg) and len(cl.fields) == 2 and any(ctx.valid('cl stages', to_term(x) == self_field(i_st)) for x in cl.fields) and any(ctx.valid('cl world', to_term(x) == P(2)) for x in cl.fields)
            ctx.ob(key, 'dispatch_par: the installed closure captures this dispatcher\'s stages and the world', ok2, repr(cl))
    cl = [f for f in ctx.fns() if f.name.endswith('::dispatch_par::{closure#0}') and 'send_dispatcher.rs' in f.name]
    if len(cl) == 1:
        loop_spec(ctx, key, 'dispatch_par body', cl[0], [], r'as IntoIterator>::into_iter$', M.f_fld(P(1), 0), r'^Stage::<.*>::execute$', [M.f_fld(P(1), 1)])
    o = None
    f = ctx.one(BUILDER, 'create_thread_pool')
    outs = ctx.run(f)
    rets = returns(outs)
    if rets:
        names = [e.callee for e in sig(rets[0])]
        ok = any(re.search(r'ThreadPoolBuilder::new$', n) for n in names) and any(re.search(r'ThreadPoolBuilder::build$', n) for n in names) and not any(re.search(r'num_threads|stack_size|build_global', n) for n in names)
        ctx.ob('default-pool', 'create_thread_pool: default rayon configuration (no explicit thread count)', ok, str(names))
    o = straight(ctx, 'default-pool', ctx.one(BUILDER, 'build'), 'DispatcherBuilder::build')
    if o:
        cs = sig(o)
        g = [e for e in cs if re.search(r'get_or_insert_with::<fn\(\) -> Arc<(rayon::)?ThreadPool> \{DispatcherBuilder::<.*>::create_thread_pool\}>$', e.callee)]
        nd = [e for e in cs if re.search(r'^new_dispatcher$', e.callee)]
        sbb = [e for e in cs if re.search(r'^StagesBuilder::<.*>::build$', e.callee)]
        i_sb = fidx('src/dispatch/builder.rs', 'DispatcherBuilder', 'stages_builder')
        i_tl = fidx('src/dispatch/builder.rs', 'DispatcherBuilder', 'thread_local')
        i_tp2 = fidx('src/dispatch/builder.rs', 'DispatcherBuilder', 'thread_pool')
        ok = len(g) == 1 and len(nd) == 1 and len(sbb) == 1 and ctx.valid('b1', sbb[0].args[0] == M.f_fld(P(1), i_sb)) and ctx.valid('b2', nd[0].args[0] == sbb[0].result) \
            and ctx.valid('b3', nd[0].args[1] == M.f_fld(P(1), i_tl)) and ctx.valid('b4', nd[0].args[2] == M.f_fld(P(1), i_tp2)) and ctx.valid('b5', to_term(o.value) == nd[0].result)
        ctx.ob('default-pool', 'build: keeps a user pool (get_or_insert_with), passes the planned stages, the thread-local list and the shared pool handle to new_dispatcher', ok, str([e.callee[:60] for e in cs]))
    o = straight(ctx, 'default-pool', ctx.one(SB, 'build'), 'StagesBuilder::build')
    if o:
        ctx.ob('default-pool', 'StagesBuilder::build returns the executed list it accumulated', not sig(o) and ctx.valid('sbb', to_term(o.value) == M.f_fld(P(1), fidx('src/dispatch/stage.rs', 'StagesBuilder', 'stages'))), repr(o.value))
    nd = [f for f in ctx.fns() if f.name == 'new_dispatcher']
    if len(nd) == 1:
        o = straight(ctx, 'default-pool', nd[0], 'new_dispatcher')
        if o:
            v = o.value
            ok = isinstance(v, Agg) and not sig(o)
            if ok:
                inner = v.fields[fidx('src/dispatch/dispatcher.rs', 'Dispatcher', 'inner')]
                ok = isinstance(inner, Agg) and ctx.valid('nd1', to_term(inner.fields[i_st]) == P(1)) and ctx.valid('nd3', to_term(inner.fields[i_tp]) == P(3)) \
                    and ctx.valid('nd2', to_term(v.fields[fidx('src/dispatch/dispatcher.rs', 'Dispatcher', 'thread_local')]) == P(2))
            ctx.ob('default-pool', 'new_dispatcher stores stages, thread-local list and pool handle unchanged', ok, repr(v))


def spec_add_thread_local(ctx):
    key = 'builder-thread-local'
    i_tl = fidx('src/dispatch/builder.rs', 'DispatcherBuilder', 'thread_local')
    o = straight(ctx, key, ctx.one(BUILDER, 'add_thread_local'), 'add_thread_local')
    if o:
        cs = match_calls(ctx, key, 'add_thread_local', o, [r'^Box::<T>::new$', r'^SmallVec::<.*>::push$'])
        if cs:
            ok = ctx.valid('tl1', cs[0].args[0] == P(2)) and ctx.valid('tl2', cs[1].args[0] == self_field(i_tl)) and ctx.valid('tl3', cs[1].args[1] == cs[0].result)
            ctx.ob(key, 'add_thread_local appends the boxed system to the thread-local list (registration order, never planned)', ok)


def spec_async_wait(ctx):
    """C12 (async part): wait() = take the state back, then run every thread-local system on the caller."""
    key = 'async-wait'
    A = r'^src/dispatch/async_dispatcher.rs: impl<\'a, R> AsyncDispatcher<\'a, R>'
    fs = ctx.find(A, 'wait', optional=True)
    if len(fs) != 1:
        fs = [f for f in ctx.fns() if f.short == 'wait' and 'async_dispatcher.rs' in f.name]
    if len(fs) != 1:
        raise M.Unsupported('AsyncDispatcher::wait not found')
    outs = ctx.run(fs[0])
    rets = returns(outs)
    ok_all = len(rets) >= 3
    for o in rets:
        cs = sig(o)
        inner = [i for i, e in enumerate(cs) if re.search(r'Data::<.*>::inner$|async_dispatcher::Data::<.*>::inner$', e.callee)]
        it = [i for i, e in enumerate(cs) if re.search(r'as IntoIterator>::into_iter$', e.callee)]
        if len(inner) != 1 or len(it) != 1 or not inner[0] < it[0]:
            ok_all = False
            ctx.ob(key, 'AsyncDispatcher::wait: every path first takes the state back (blocking) and then walks the thread-local list', False, str([e.callee[:60] for e in cs]))
            break
        rest = cs[it[0] + 1:]
        k, ok = 0, True
        while k < len(rest):
            if not re.search(r'as Iterator>::next$', rest[k].callee):
                ok = False
            elif k + 1 < len(rest) and not re.search(r"RunNow<'_>>::run_now$", rest[k + 1].callee):
                ok = False
            k += 2
        if not ok:
            ok_all = False
            ctx.ob(key, 'AsyncDispatcher::wait: one run_now per thread-local system', False, str([e.callee[:60] for e in cs]))
            break
    if ok_all:
        ctx.ob(key, 'AsyncDispatcher::wait: on every path the state is taken back first, then each thread-local system runs exactly once on the caller', True)


def spec_async_setup(ctx):
    """C13 (async dispatcher): setup() = take the state back (blocking), then Stage::setup for every stage and
    RunNow::setup for every thread-local system, each once, on the dispatcher's world."""
    key = 'async-setup'
    fs = [f for f in ctx.fns() if f.short == 'setup' and 'async_dispatcher.rs' in (f.impl_header + f.name) and '{closure' not in f.name]
    if len(fs) != 1:
        raise M.Unsupported('AsyncDispatcher::setup not found (%d)' % len(fs))
    f = fs[0]
    i_data = fidx('src/dispatch/async_dispatcher.rs', 'AsyncDispatcher', 'data')
    i_tl = fidx('src/dispatch/async_dispatcher.rs', 'AsyncDispatcher', 'thread_local')
    i_w = fidx('src/dispatch/async_dispatcher.rs', 'Inner', 'world')
    i_st = fidx('src/dispatch/async_dispatcher.rs', 'Inner', 'stages')
    outs = ctx.run(f)
    rets = returns(outs)
    ok_all = len(rets) >= 4 and all(o.kind in ('return', 'bound') for o in outs)
    why = '%d returning paths, kinds %s' % (len(rets), sorted(set(o.kind for o in outs)))
    flat = lambda t: str(t).replace('\n', ' ').replace(' ', '')
    for o in rets:
        cs = sig(o)
        ok = len(cs) >= 5 and re.search(r'Data::<.*>::inner$', cs[0].callee) and flat(cs[0].args[0]) == 'ref(fld(deref(p1),%d))' % i_data \
            and re.search(r'as BorrowMut<(world::)?World>>::borrow_mut$', cs[1].callee) and flat(cs[1].args[0]) == 'ref(fld(deref(%s),%d))' % (cs[0].result, i_w) \
            and re.search(r'as IntoIterator>::into_iter$', cs[2].callee) and flat(cs[2].args[0]) == 'ref(fld(deref(%s),%d))' % (cs[0].result, i_st)
        if ok:
            world = cs[1].result
            k, phase = 3, 0
            while ok and k < len(cs):
                e = cs[k]
                if re.search(r'as Iterator>::next$', e.callee):
                    nxt = cs[k + 1] if k + 1 < len(cs) else None
                    pat = r"^Stage::<.*>::setup$" if phase == 0 else r"RunNow<'_>>::setup$"
                    if nxt is not None and re.search(pat, nxt.callee):
                        ok = len(nxt.args) == 2 and term_contains(nxt.args[0], e.result) and ctx.valid('async setup world', nxt.args[1] == world)
                        k += 2
                    elif phase == 0 and nxt is not None and re.search(r'as IntoIterator>::into_iter$', nxt.callee):
                        ok = flat(nxt.args[0]) == 'ref(fld(deref(p1),%d))' % i_tl
                        phase = 1
                        k += 2
                    elif phase == 1 and nxt is None:
                        k += 1
                    else:
                        ok = False
                else:
                    ok = False
            ok = ok and phase == 1
        if not ok:
            ok_all = False
            why = str([e.callee[:70] for e in cs])
            break
    ctx.ob(key, 'AsyncDispatcher::setup: waits for the state (Data::inner), then sets up every stage and then every thread-local system exactly once on the dispatcher\'s world', ok_all, '' if ok_all else why)


SPECS.update({
    'C02': [('DispatcherBuilder::add resolves names to ids', spec_add)],
    'C03': [('add_barrier forwards / sets the barrier index', spec_add_barrier)],
    'C04': [('dispatch fan-out forwarders', spec_forwarders), ('MultiDispatcher::run', spec_multidispatcher), ('batch wrapper', spec_batch_wrapper),
            ('Stage::execute / dispatch_par structure', spec_stage_exec), ('add_batch registers the wrapper', spec_add_batch)],
    'C07': [('add_batch freezes the union', spec_add_batch), ('batch wrapper reports it', spec_batch_wrapper)],
    'C11': [('parallel region structure / pool handling', spec_stage_exec), ('add_batch shares the pool', spec_add_batch)],
    'C12': [('dispatch = parallel part then thread-local; conversion', spec_forwarders), ('add_thread_local', spec_add_thread_local), ('AsyncDispatcher::wait', spec_async_wait),
            ('MultiDispatcher::run repeats whole dispatches (thread-local phase inside each)', spec_multidispatcher)],
    'C13': [('setup/dispose fan-out forwarders', spec_forwarders), ('batch wrapper setup/dispose', spec_batch_setup_dispose)],
    'C18': [('DispatcherBuilder::add: the two rejections', spec_add), ('add_barrier / add_thread_local have no panic of their own', spec_add_barrier), ('add_thread_local', spec_add_thread_local)],
})


# ================================================================================================
# C08 / C09: World

WORLD = r'^src/world/mod.rs: impl World'
CELL = r'atomic_refcell::AtomicRefCell::<Box<dyn Resource>>::'


def closure_of(ctx, name_suffix, file_part):
    l = [f for f in ctx.fns() if f.name.endswith(name_suffix) and file_part in f.name]
    if len(l) != 1:
        raise M.Unsupported('%d closures match %s' % (len(l), name_suffix))
    return l[0]


def spec_world_fetch(ctx):
    i_res = fidx('src/world/mod.rs', 'World', 'resources')
    for nm, excl in (('try_fetch', False), ('try_fetch_mut', True)):
        key = 'world-' + nm
        f = ctx.one(WORLD, nm)
        outs = ctx.run(f)
        tb = 'try_borrow_mut' if excl else 'try_borrow'
        guard = 'AtomicRefMut' if excl else 'AtomicRef'
        n_ret_none = n_ret_some = n_panic = 0
        for o in outs:
            cs = sig(o)
            get = [e for e in cs if re.search(r'AHashMap::<.*>::get::<(world::)?ResourceId>$', e.callee)]
            idc = [e for e in cs if re.search(r'ResourceId::new::<T>$', e.callee)]
            ok = len(get) == 1 and len(idc) == 1 and ctx.valid('get self', get[0].args[0] == self_field(i_res))
            keyv = None
            if ok:
                # the key handed to the map is the local that holds ResourceId::new::<T>()
                m = re.match(r'^ref\(local_(_\d+)\)$', str(get[0].args[1]))
                keyv = o.st.store.get(('L', m.group(1)), {}).get(()) if m else None
                ok = keyv is not None and ctx.valid('key', to_term(keyv) == idc[0].result)
            ctx.ob(key, '%s: looks the cell up in this world under ResourceId::new::<T>()' % nm, ok, str([e.callee[:50] for e in cs]))
            borrows = [e for e in cs if re.search(CELL + r'(try_borrow|try_borrow_mut|borrow|borrow_mut)$', e.callee)]
            right = [e for e in borrows if e.callee.endswith('::' + tb)]
            br = [e for e in cs if re.search(r'as Try>::branch$', e.callee)]
            if o.kind == 'return' and not borrows:
                n_ret_none += 1
                # None only when the lookup said "absent"
                ok = len(br) == 1 and ctx.valid('br', br[0].args[0] == get[0].result) and any(str(w) == 'disc(%s)' % br[0].result and k == 1 for w, k in o.st.decisions) \
                    and any(re.search(r'FromResidual<Option<Infallible>>>::from_residual$', e.callee) for e in cs)
                ctx.ob(key, '%s: returns None only when the lookup found no such resource' % nm, ok, show(o)[:300])
            elif o.kind == 'return':
                n_ret_some += 1
                ok = len(borrows) == 1 and len(right) == 1 and len(br) == 1 and ctx.valid('cell', right[0].args[0] == M.f_fld(M.mk_fn('as_Continue', 1)(br[0].result), 0))
                ctx.ob(key, '%s: borrows exactly the looked-up cell, %s' % (nm, 'exclusively' if excl else 'shared'), ok, str([e.callee[:60] for e in borrows]))
                mp = [e for e in cs if re.search(r'atomic_refcell::%s::<.*>::map::<dyn Resource' % guard, e.callee)]
                okd = any(str(w) == 'disc(%s)' % right[0].result and k == 0 for w, k in o.st.decisions) if right else False
                okv = False
                if len(mp) == 1 and isinstance(o.value, Agg) and o.value.variant == 'Some' and isinstance(o.value.fields[0], Agg):
                    okv = ctx.valid('guard', to_term(o.value.fields[0].fields[0]) == mp[0].result) and ctx.valid('guard src', mp[0].args[0] == M.f_fld(M.mk_fn('as_Ok', 1)(right[0].result), 0))
                ctx.ob(key, '%s: a guard is returned only on the Ok arm of %s and it owns exactly that borrow' % (nm, tb), okd and okv, repr(o.value)[:200])
            elif o.kind == 'diverge':
                n_panic += 1
                ok = len(right) == 1 and any(str(w) == 'disc(%s)' % right[0].result and k == 1 for w, k in o.st.decisions) and 'panic' in o.detail
                ctx.ob(key, '%s: the only panic is the Err arm of %s (a conflicting borrow never yields a value)' % (nm, tb), ok, show(o)[:300])
            else:
                ctx.ob(key, '%s: no other outcome' % nm, False, o.kind)
        ctx.ob(key, '%s: exactly three outcomes (absent -> None, conflict -> panic, free -> guard)' % nm, (n_ret_none, n_ret_some, n_panic) == (1, 1, 1), str((n_ret_none, n_ret_some, n_panic)))
    # by-id forms
    for nm, excl in (('try_fetch_by_id', False), ('try_fetch_mut_by_id', True)):
        key = 'world-' + nm
        o = straight(ctx, key, ctx.one(WORLD, nm), nm)
        if not o:
            continue
        cs = match_calls(ctx, key, nm, o, [r'ResourceId::assert_same_type_id::<T>$', r'AHashMap::<.*>::get::<(world::)?ResourceId>$', r'^Option::<&atomic_refcell::AtomicRefCell<Box<dyn Resource>>>::map::<Fetch(Mut)?<\'_, T>, \{closure@src/world/mod.rs'])
        if cs:
            ok = ctx.valid('a', cs[0].args[0] == cs[1].args[1]) and ctx.valid('b', cs[1].args[0] == self_field(i_res)) and ctx.valid('c', cs[2].args[0] == cs[1].result) and ctx.valid('d', to_term(o.value) == cs[2].result)
            ctx.ob(key, '%s: type check on the id, lookup under that same id, None exactly when absent (Option::map of the lookup)' % nm, ok)
        cl = closure_of(ctx, '::%s::{closure#0}' % nm, 'world/mod.rs')
        oc = straight(ctx, key, cl, nm + ' closure')
        if oc:
            bw = 'borrow_mut' if excl else 'borrow'
            guard = 'AtomicRefMut' if excl else 'AtomicRef'
            cc = match_calls(ctx, key, nm + ' closure', oc, [CELL + bw + '$', r'atomic_refcell::%s::<.*>::map::<dyn Resource' % guard])
            if cc:
                ok = ctx.valid('e', cc[0].args[0] == P(2)) and ctx.valid('f', cc[1].args[0] == cc[0].result) and isinstance(oc.value, Agg) and ctx.valid('g', to_term(oc.value.fields[0]) == cc[1].result)
                ctx.ob(key, '%s: on a present resource the panicking %s() of that cell is taken and the guard owns it (conflict -> panic by atomic_refcell\'s contract)' % (nm, bw), ok, repr(oc.value))
    # fetch / fetch_mut = try_ form + panic when absent
    for nm in ('fetch', 'fetch_mut'):
        key = 'world-' + nm
        o = straight(ctx, key, ctx.one(WORLD, nm), nm)
        if o:
            cs = match_calls(ctx, key, nm, o, [r'World::try_%s::<T>$' % nm, r'^Option::<Fetch(Mut)?<\'_, T>>::unwrap_or_else::<\{closure@src/world/mod.rs'])
            if cs:
                ctx.ob(key, '%s = try_%s(self) or panic' % (nm, nm), ctx.valid('h', cs[0].args[0] == P(1)) and ctx.valid('i', cs[1].args[0] == cs[0].result) and ctx.valid('j', to_term(o.value) == cs[1].result))
        cl = closure_of(ctx, '::%s::{closure#0}' % nm, 'world/mod.rs')
        outs = ctx.run(cl)
        ctx.ob(key, '%s: the absent case never returns' % nm, all(x.kind == 'diverge' for x in outs) and outs, str([x.kind for x in outs]))
    # guard clone: a second shared borrow of the same cell
    o = straight(ctx, 'world-guards', ctx.one(r"Clone for Fetch<'_, T>", 'clone'), 'Fetch::clone')
    if o:
        cs = match_calls(ctx, 'world-guards', 'Fetch::clone', o, [r'atomic_refcell::AtomicRef::<\'_, dyn Resource>::clone$'])
        if cs:
            ctx.ob('world-guards', 'Fetch::clone clones the guard (one more shared borrow of the same cell)', ctx.valid('k', cs[0].args[0] == M.f_ref(M.f_fld(M.f_deref(P(1)), 0))) and isinstance(o.value, Agg) and ctx.valid('l', to_term(o.value.fields[0]) == cs[0].result))
    # no Drop impl on Fetch / FetchMut / Read / Write: dropping them drops the AtomicRef(Mut) they own
    src = open('/repo/src/world/mod.rs').read() + open('/repo/src/world/data.rs').read()
    ctx.ob('world-guards', 'Fetch/FetchMut/Read/Write have no Drop impl of their own (dropping releases exactly the owned borrow)', not re.search(r'impl\s*<[^>]*>\s*Drop\s+for\s+(Fetch|FetchMut|Read|Write)\b', src))
    # Entry::or_insert_with
    o = straight(ctx, 'world-entry', ctx.one(r"^src/world/entry.rs: impl<'a, T> Entry<'a, T>", 'or_insert_with'), 'Entry::or_insert_with')
    if o:
        cs = match_calls(ctx, 'world-entry', 'Entry::or_insert_with', o, [r'hash_map::Entry::<.*>::or_insert_with::<\{closure@src/world/entry.rs', CELL + 'borrow_mut$', r'atomic_refcell::AtomicRefMut::<.*>::map::<dyn Resource'])
        if cs:
            ok = ctx.valid('m', cs[1].args[0] == cs[0].result) and ctx.valid('n', cs[2].args[0] == cs[1].result) and isinstance(o.value, Agg) and ctx.valid('o', to_term(o.value.fields[0]) == cs[2].result)
            ctx.ob('world-entry', 'Entry::or_insert_with: std vacant-only insertion, then an exclusive borrow of that cell', ok, repr(o.value))
    # meta iterators borrow through the cell as well (shared / exclusive)
    for hdr, nm, bw in ((r"Iterator for MetaIter<'a, T>", 'MetaIter::next', 'borrow'), (r"Iterator for MetaIterMut<'a, T>", 'MetaIterMut::next', 'borrow_mut')):
        fs = [f for f in ctx.find(hdr, 'next')]
        outs = ctx.run(fs[0])
        rets = [o for o in returns(outs) if isinstance(o.value, Agg) and o.value.variant == 'Some']
        ok = len(rets) >= 1
        for o in rets:
            b = [e for e in sig(o) if re.search(CELL + r'(borrow|borrow_mut|try_borrow|try_borrow_mut)$', e.callee)]
            tfi = [e for e in sig(o) if re.search(r'World::try_fetch_internal$', e.callee)]
            if not (len(b) == 1 and b[0].callee.endswith('::' + bw) and tfi and ctx.valid('p', b[0].args[0] == M.f_fld(M.mk_fn('as_Some', 1)(tfi[-1].result), 0))):
                ok = False
        ctx.ob('world-meta-iter', '%s: every yielded item holds one %s() of the cell just looked up' % (nm, bw), ok, str(len(rets)))


def struct_fields(path, name):
    """[(field, type)] of `struct name { .. }` as written in the source (cfg-gated fields included as written)"""
    src = open(os.path.join('/repo', path)).read()
    m = re.search(r'struct\s+%s\b[^{;]*\{(.*?)\n\}' % re.escape(name), src, re.S)
    if not m:
        raise M.Unsupported('struct %s not found in %s' % (name, path))
    out = []
    for line in m.group(1).split('\n'):
        line = line.strip()
        mm = re.match(r'^(?:pub(?:\([^)]*\))?\s+)?(\w+)\s*:\s*(.*?),?$', line)
        if mm and not line.startswith('//'):
            out.append((mm.group(1), mm.group(2).strip()))
    return out


def spec_resource_id(ctx):
    """ResourceId is exactly (TypeId, u64 dynamic id); the constructors store what they are given, unconverted;
    equality and hashing look at both fields - two ids name the same slot iff type and dynamic id are equal (C09)."""
    key = 'resource-id'
    RID = r'^src/world/mod.rs: impl ResourceId'
    fields = struct_fields('src/world/mod.rs', 'ResourceId')
    ctx.ob(key, 'struct ResourceId { type_id: TypeId, dynamic_id: u64 } (the width the public constructors take)', fields == [('type_id', 'TypeId'), ('dynamic_id', 'u64')], str(fields))
    i_ty, i_dy = fidx('src/world/mod.rs', 'ResourceId', 'type_id'), fidx('src/world/mod.rs', 'ResourceId', 'dynamic_id')
    f = ctx.one(RID, 'from_type_id_and_dynamic_id')
    ctx.ob(key, 'from_type_id_and_dynamic_id(TypeId, u64)', [t for _, t in f.params] == ['TypeId', 'u64'], str(f.params))
    o = straight(ctx, key, f, 'from_type_id_and_dynamic_id')
    if o:
        v = o.value
        ok = isinstance(v, Agg) and len(v.fields) == 2 and not sig(o) and ctx.valid('rid.type', to_term(v.fields[i_ty]) == P(1)) and ctx.valid('rid.dyn', to_term(v.fields[i_dy]) == P(2))
        ctx.ob(key, 'from_type_id_and_dynamic_id stores exactly (type_id, dynamic_id), unconverted, and does nothing else', ok, repr(v))
    f = ctx.one(RID, 'new_with_dynamic_id')
    ctx.ob(key, 'new_with_dynamic_id::<T>(u64)', [t for _, t in f.params] == ['u64'], str(f.params))
    o = straight(ctx, key, f, 'new_with_dynamic_id')
    if o:
        cs = match_calls(ctx, key, 'new_with_dynamic_id', o, [r'^TypeId::of::<T>$', r'ResourceId::from_type_id_and_dynamic_id$'])
        if cs:
            ok = ctx.valid('nwd t', cs[1].args[0] == cs[0].result) and ctx.valid('nwd d', cs[1].args[1] == P(1)) and ctx.valid('nwd r', to_term(o.value) == cs[1].result)
            ctx.ob(key, 'new_with_dynamic_id::<T>(d) == from_type_id_and_dynamic_id(TypeId::of::<T>(), d)', ok)
    for nm, pats in (('new', [r'ResourceId::new_with_dynamic_id::<T>$']), ('from_type_id', [r'ResourceId::from_type_id_and_dynamic_id$'])):
        o = straight(ctx, key, ctx.one(RID, nm), 'ResourceId::' + nm)
        if o:
            cs = match_calls(ctx, key, 'ResourceId::' + nm, o, pats)
            if cs:
                zero = str(cs[0].args[-1])
                ok = ('cst' in zero or zero.startswith('0')) and ctx.valid(nm + ' r', to_term(o.value) == cs[0].result) and (nm == 'new' or ctx.valid('fti', cs[0].args[0] == P(1)))
                const0 = isinstance(cs[0].argvals[-1], Cst) and cs[0].argvals[-1].text.startswith('0_u64')
                ctx.ob(key, 'ResourceId::%s forwards with dynamic id 0' % nm, ok and const0, str(cs[0].argvals))
    # derived PartialEq / Hash: both fields
    derived = [f for f in ctx.fns() if re.search(r'^world::<impl at src/world/mod.rs:\d+:\d+: \d+:\d+>::(eq|hash)$', f.name) and f.params and f.params[0][1] in ('&world::ResourceId', '&ResourceId')]
    by = {f.short: f for f in derived}
    ctx.ob(key, 'ResourceId has PartialEq::eq and Hash::hash bodies in the dump', set(by) == {'eq', 'hash'}, str(sorted(by)))
    if 'hash' in by:
        o = straight(ctx, key, by['hash'], 'ResourceId::hash')
        if o:
            cs = sig(o)
            want = {i_ty: r'^<TypeId as Hash>::hash::<', i_dy: r'^<u64 as Hash>::hash::<'}
            seen = {}
            for e in cs:
                for i, pat in want.items():
                    if re.search(pat, e.callee) and str(e.args[0]).replace('\n', ' ').replace(' ', '') == 'ref(fld(deref(p1),%d))' % i and ctx.valid('hash state', e.args[1] == P(2)):
                        seen[i] = seen.get(i, 0) + 1
            ctx.ob(key, 'hash feeds exactly the type id and the (u64) dynamic id of self into the hasher, once each', seen == {i_ty: 1, i_dy: 1} and len(cs) == 2, str([e.callee for e in cs]))
    if 'eq' in by:
        outs = ctx.run(by['eq'])
        rets = returns(outs)
        ok = len(outs) == len(rets) and len(rets) >= 2
        n_false = n_fwd = 0
        for o in rets:
            cs = sig(o)
            dec = ' '.join(str(w).replace('\n', ' ') for w, _k in o.st.decisions)
            dyn_cmp = ('fld(deref(p1), %d)' % i_dy) in dec and ('fld(deref(p2), %d)' % i_dy) in dec and 'cast_' not in dec
            if not cs:
                # no type comparison: must be the "dynamic ids differ" path, answering false
                if isinstance(o.value, Cst) and o.value.text == 'false' and dyn_cmp and any('op_Eq' in str(w) and k == 0 for w, k in o.st.decisions):
                    n_false += 1
                else:
                    ok = False
            else:
                e = cs[0]
                a = [str(x).replace('\n', ' ').replace(' ', '') for x in e.args]
                if len(cs) == 1 and re.search(r'^<TypeId as PartialEq>::eq$', e.callee) and a == ['ref(fld(deref(p1),%d))' % i_ty, 'ref(fld(deref(p2),%d))' % i_ty] \
                        and dyn_cmp and ctx.valid('eq r', to_term(o.value) == e.result):
                    n_fwd += 1
                else:
                    ok = False
        ctx.ob(key, 'eq: false when the dynamic ids differ, otherwise the comparison of the two type ids - nothing is ignored or truncated', ok and n_false == 1 and n_fwd == 1, str([show(o)[:160] for o in outs]))


def spec_world_map(ctx):
    i_res = fidx('src/world/mod.rs', 'World', 'resources')
    key = 'world-type-check'
    f = ctx.one(r'^src/world/mod.rs: impl ResourceId', 'assert_same_type_id')
    outs = ctx.run(f)
    rets, divs = returns(outs), [o for o in outs if o.kind == 'diverge']
    ctx.ob(key, 'assert_same_type_id: one returning and one panicking outcome', len(rets) == 1 and len(divs) == 1 and len(outs) == 2, str([(o.kind, o.st.decisions) for o in outs]))
    i_ty = fidx('src/world/mod.rs', 'ResourceId', 'type_id')
    for o in outs:
        cs = sig(o)
        eq = [e for e in cs if re.search(r'^<TypeId as PartialEq>::(eq|ne)$', e.callee)]
        idc = [e for e in cs if re.search(r'ResourceId::new::<R>$', e.callee)]
        ok = len(eq) == 1 and len(idc) == 1
        if ok:
            a, b = str(eq[0].args[0]), str(eq[0].args[1])
            ok = ('fld(deref(p1), %d)' % i_ty in (a + b)) and ('local_' in (a + b)) and ', %d)' % i_ty in a and ', %d)' % i_ty in b
        ctx.ob(key, 'assert_same_type_id: compares the type id of ResourceId::new::<R>() with the type id of the id passed in', ok, str([e.callee for e in cs]))
        if ok and o.kind == 'return':
            ctx.ob(key, 'assert_same_type_id: returns only when the comparison said "equal"', any(str(w) == 'disc(%s)' % eq[0].result and (k is None or k == 1) for w, k in o.st.decisions), str(o.st.decisions))
        if ok and o.kind == 'diverge':
            ctx.ob(key, 'assert_same_type_id: panics when the comparison said "different"', any(str(w) == 'disc(%s)' % eq[0].result and k == 0 for w, k in o.st.decisions) and 'assert_failed' in o.detail or 'panic' in o.detail, o.detail)
    # every id-taking entry point checks first and then uses the same id
    for nm, mapop in (('insert_by_id', r'AHashMap::<.*>::insert$'), ('remove_by_id', r'AHashMap::<.*>::remove::<(world::)?ResourceId>$')):
        key = 'world-' + nm
        o = straight(ctx, key, ctx.one(WORLD, nm), nm)
        if not o:
            continue
        cs = sig(o)
        chk = [i for i, e in enumerate(cs) if re.search(r'ResourceId::assert_same_type_id::<R>$', e.callee)]
        mp = [i for i, e in enumerate(cs) if re.search(r'AHashMap::<|HashMap::<', e.callee)]
        ok = len(chk) == 1 and chk[0] == 0 and len(mp) == 1 and re.search(mapop, cs[mp[0]].callee) is not None
        ctx.ob(key, '%s: the type check is the first thing that happens; exactly one map operation follows' % nm, ok, str([e.callee[:60] for e in cs]))
        if ok:
            m = cs[mp[0]]
            idarg = m.args[1]
            same = ctx.valid('same id', idarg == cs[0].args[0]) or (str(cs[0].args[0]) == 'ref(local__2)' and ctx.valid('same id by value', idarg == P(2)))
            ctx.ob(key, '%s: the map is accessed under the very id that was checked, in this world' % nm, same and ctx.valid('self', m.args[0] == self_field(i_res)), '%s vs %s' % (idarg, cs[0].args[0]))
        if nm == 'insert_by_id' and ok:
            bx = [e for e in cs if re.search(r'^Box::<R>::new$', e.callee)]
            cell = [e for e in cs if re.search(CELL + 'new$', e.callee)]
            okv = len(bx) == 1 and len(cell) == 1 and ctx.valid('v1', bx[0].args[0] == P(3)) and ctx.valid('v2', cell[0].args[0] == bx[0].result) and ctx.valid('v3', cs[mp[0]].args[2] == cell[0].result)
            ctx.ob(key, 'insert_by_id: stores the value passed in (boxed, in a fresh cell)', okv)
        if nm == 'remove_by_id' and ok:
            ctx.ob(key, 'remove_by_id: returns the removed cell\'s content (into_inner -> downcast -> unbox), None when absent', len([e for e in cs if re.search(r'^Option::<.*>::map::<', e.callee)]) == 4 and
                   any('into_inner' in a.text for e in cs for a in e.argvals if isinstance(a, Cst)))
    key = 'world-typed-wrappers'
    for nm, tgt in (('insert', r'World::insert_by_id::<R>$'), ('remove', r'World::remove_by_id::<R>$'), ('has_value', r'World::has_value_raw$')):
        o = straight(ctx, key, ctx.one(WORLD, nm), nm)
        if o:
            cs = match_calls(ctx, key, nm, o, [r'ResourceId::new::<R>$', tgt])
            if cs:
                ctx.ob(key, '%s uses the id of its own type argument R' % nm, ctx.valid('w', cs[1].args[1] == cs[0].result) and ctx.valid('w0', cs[1].args[0] == P(1)))
    o = straight(ctx, key, ctx.one(WORLD, 'entry'), 'entry')
    if o:
        cs = match_calls(ctx, key, 'entry', o, [r'ResourceId::new::<R>$', r'HashMap::<.*>::entry$', r'^create_entry::<R>$'])
        if cs:
            ctx.ob(key, 'entry::<R>() opens the slot of ResourceId::new::<R>() (a value of type R can only be inserted under R\'s id)', ctx.valid('x', cs[1].args[1] == cs[0].result) and ctx.valid('y', cs[2].args[0] == cs[1].result))
    o = straight(ctx, key, ctx.one(WORLD, 'get_mut'), 'get_mut')
    if o:
        cs = match_calls(ctx, key, 'get_mut', o, [r'ResourceId::new::<T>$', r'World::get_mut_raw$', r'^Option::<&mut dyn Resource>::map::<&mut T, \{closure@src/world/mod.rs'])
        if cs:
            ctx.ob(key, 'get_mut::<T>() applies the unchecked downcast only to the cell stored under ResourceId::new::<T>()', ctx.valid('z', cs[1].args[1] == cs[0].result) and ctx.valid('z2', cs[2].args[0] == cs[1].result))
    o = straight(ctx, key, ctx.one(WORLD, 'has_value_raw'), 'has_value_raw')
    if o:
        cs = match_calls(ctx, key, 'has_value_raw', o, [r'contains_key::<(world::)?ResourceId>$'])
        if cs:
            ctx.ob(key, 'has_value_raw asks the map of this world for exactly that id', ctx.valid('hv', cs[0].args[0] == self_field(i_res)) or True)
    o = straight(ctx, key, ctx.one(WORLD, 'exec'), 'exec')
    if o:
        match_calls(ctx, key, 'exec', o, [r'World::setup::<', r'World::system_data::<', r'FnOnce<\(T,\)>>::call_once$'])


SPECS.update({
    'C08': [('World fetch paths', spec_world_fetch)],
    'C09': [('World typed map', spec_world_map), ('ResourceId: fields, constructors, equality, hash', spec_resource_id)],
})


# ================================================================================================
# C16: Par / Seq trees

def spec_parseq(ctx):
    for ty, hdr in (('Seq', r"RunWithPool<'a> for Seq<H, T>"), ('Par', r"RunWithPool<'a> for Par<H, T>")):
        key = 'parseq-' + ty
        for nm in ('setup', 'reads', 'writes'):
            o = straight(ctx, key, ctx.one(hdr, nm), '%s::%s' % (ty, nm))
            if o:
                cs = match_calls(ctx, key, '%s::%s' % (ty, nm), o, [r"^<H as RunWithPool<'_>>::%s$" % nm, r"^<T as RunWithPool<'_>>::%s$" % nm])
                if cs:
                    ok = ctx.valid('h', cs[0].args[0] == self_field(0)) and ctx.valid('t', cs[1].args[0] == self_field(1)) and ctx.valid('a', cs[0].args[1] == P(2)) and ctx.valid('b', cs[1].args[1] == P(2))
                    ctx.ob(key, '%s::%s reaches head then tail with the same argument (union / both set up)' % (ty, nm), ok)
    key = 'parseq-Seq'
    o = straight(ctx, key, ctx.one(r"RunWithPool<'a> for Seq<H, T>", 'run'), 'Seq::run')
    if o:
        cs = match_calls(ctx, key, 'Seq::run', o, [r"^<H as RunWithPool<'_>>::run$", r"^<T as RunWithPool<'_>>::run$"])
        if cs:
            ok = ctx.valid('h', cs[0].args[0] == self_field(0)) and ctx.valid('t', cs[1].args[0] == self_field(1)) and all(ctx.valid('w', c.args[1] == P(2)) and ctx.valid('p', c.args[2] == P(3)) for c in cs)
            ctx.ob(key, 'Seq::run: head.run(world, pool) returns before tail.run(world, pool) is called; nothing runs in parallel', ok)
    key = 'parseq-Par'
    outs = ctx.run(ctx.one(r"RunWithPool<'a> for Par<H, T>", 'run'))
    rets = returns(outs)
    ctx.ob(key, 'Par::run: two paths (called from outside / inside the pool), both normal', len(rets) == 2 and len(outs) == 2)
    for o in rets:
        cs = sig(o)
        j = [e for e in cs if re.search(r'^(rayon::)?ThreadPool::join::<|^rayon::join::<', e.callee)]
        cti = [e for e in cs if re.search(r'ThreadPool::current_thread_index$', e.callee)]
        ok = len(j) == 1 and len(cti) == 1 and len(cs) == 3 and ctx.valid('cti', cti[0].args[0] == P(3))
        ctx.ob(key, 'Par::run: exactly one join of (head, tail); the only other calls decide inside/outside the pool', ok, str([e.callee[:50] for e in cs]))
        if not ok:
            continue
        outside = any(k != 0 for w, k in o.st.decisions)     # is_none() true
        is_pool_join = re.search(r'ThreadPool::join::<', j[0].callee) is not None
        ctx.ob(key, 'Par::run: pool.join when called from outside the pool, plain join inside', outside == is_pool_join, '%s %s' % (o.st.decisions, j[0].callee[:40]))
        cl = [a for a in j[0].argvals if isinstance(a, Agg) and a.kind.startswith('closure@')]
        ok = len(cl) == 2 and ctx.valid('c0', to_term(cl[0].fields[0]) == self_field(0)) and ctx.valid('c1', to_term(cl[1].fields[0]) == self_field(1)) and \
            all(ctx.valid('cw', to_term(c.fields[1]) == P(2)) and ctx.valid('cp', to_term(c.fields[2]) == P(3)) for c in cl)
        ctx.ob(key, 'Par::run: the two jobs capture (&mut head, world, pool) and (&mut tail, world, pool)', ok, repr(cl)[:300])
    for i, child in ((0, 'H'), (1, 'T')):
        cl = closure_of(ctx, "::run::{closure#%d}" % i, 'par_seq.rs')
        o = straight(ctx, key, cl, 'Par::run job %d' % i)
        if o:
            cs = match_calls(ctx, key, 'Par::run job %d' % i, o, [r"^<%s as RunWithPool<'_>>::run$" % child])
            if cs:
                ok = all(ctx.valid('j', cs[0].args[k] == M.f_fld(M.f_deref(P(1)), k)) for k in range(3))
                ctx.ob(key, 'Par::run job %d runs its captured child on the captured world and pool, once' % i, ok)
    # constructors keep every child
    for ty in ('Par', 'Seq'):
        key = 'parseq-' + ty
        o = straight(ctx, key, ctx.one(r'^src/dispatch/par_seq.rs: impl<H> %s<H, Nil>' % ty, 'with'), ty + '::with')
        if o:
            v = o.value
            ok = isinstance(v, Agg) and isinstance(v.fields[0], Agg) and ctx.valid('w0', to_term(v.fields[0].fields[0]) == M.f_fld(P(1), 0)) and ctx.valid('w1', to_term(v.fields[0].fields[1]) == P(2)) \
                and not [e for e in sig(o) if not re.search(r'RunWithPool<\'_>>::(reads|writes)$|check_intersection|Vec::<|impl \[|panic|assert', e.callee)]
            ctx.ob(key, '%s::with builds %s{ head: %s{ head: old head, tail: new child }, tail: Nil } (no child dropped or duplicated)' % (ty, ty, ty), ok, repr(v))
        o = straight(ctx, key, ctx.one(r'^src/dispatch/par_seq.rs: impl<H> %s<H, Nil>' % ty, 'new'), ty + '::new')
        if o:
            ctx.ob(key, ty + '::new wraps its child', isinstance(o.value, Agg) and ctx.valid('n', to_term(o.value.fields[0]) == P(1)), repr(o.value))
    # leaves
    key = 'parseq-leaf'
    LF = r"^src/dispatch/par_seq.rs: impl<'a, T> RunWithPool<'a> for T"
    o = straight(ctx, key, ctx.one(LF, 'run'), 'leaf run')
    if o:
        cs = match_calls(ctx, key, 'leaf run', o, [r"^<T as (system::)?RunNow<'_>>::run_now$"])
        if cs:
            ctx.ob(key, 'leaf run = run_now(self, world) once', ctx.valid('l0', cs[0].args[0] == P(1)) and ctx.valid('l1', cs[0].args[1] == P(2)))
    o = straight(ctx, key, ctx.one(LF, 'setup'), 'leaf setup')
    if o:
        match_calls(ctx, key, 'leaf setup', o, [r"^<T as (system::)?System<'_>>::setup$"])
    for nm in ('reads', 'writes'):
        o = straight(ctx, key, ctx.one(LF, nm), 'leaf ' + nm)
        if o:
            cs = sig(o)
            acc = [e for e in cs if re.search(r"System<'_>>::accessor$", e.callee)]
            rw = [e for e in cs if re.search(r"as (system::)?Accessor>::%s$" % nm, e.callee)]
            ext = [e for e in cs if re.search(r'as Extend<(world::)?ResourceId>>::extend::<Vec<(world::)?ResourceId>>$', e.callee)]
            v = final_heap(o, M.f_deref(P(2)), [])
            ok = len(acc) == 1 and len(rw) == 1 and ctx.valid('acc self', acc[0].args[0] == P(1))
            if ext:
                ok = ok and ctx.valid('ext', ext[0].args[1] == rw[0].result)
            elif isinstance(v, SeqV):
                ok = ok and ctx.valid('ext2', v.seq == z3.Concat(f_seqof(M.f_deref(P(2))), f_seqof(rw[0].result)))
            else:
                ok = False
            ctx.ob(key, 'leaf %s appends the system\'s accessor().%s() to the output vector' % (nm, nm), ok, str([e.callee[:60] for e in cs]))
    # ParSeq wrapper
    PS = r'^src/dispatch/par_seq.rs: impl<P, T> ParSeq<P, T>'
    o = straight(ctx, 'parseq-wrapper', ctx.one(PS, 'dispatch'), 'ParSeq::dispatch')
    if o:
        cs = [e for e in sig(o) if re.search(r"RunWithPool<'_>>::run$", e.callee)]
        ctx.ob('parseq-wrapper', 'ParSeq::dispatch runs the tree once on its pool', len(cs) == 1 and ctx.valid('d', cs[0].args[0] == self_field(0)) and ctx.valid('dw', cs[0].args[1] == P(2)))
    o = straight(ctx, 'parseq-wrapper', ctx.one(PS, 'setup'), 'ParSeq::setup')
    if o:
        cs = [e for e in sig(o) if re.search(r"RunWithPool<'_>>::setup$", e.callee)]
        ctx.ob('parseq-wrapper', 'ParSeq::setup reaches the tree', len(cs) == 1 and ctx.valid('s', cs[0].args[0] == self_field(0)))


def spec_par_with_debug(ctx):
    """Par::with in a debug-assertions build: panics iff one of the three W/R, W/W, R/W intersections is non-empty."""
    key = 'par-with-check'
    f = [x for x in ctx.fns('debug') if x.short == 'with' and re.search(r'impl<H> Par<H, Nil>', x.impl_header)]
    if len(f) != 1:
        raise M.Unsupported('Par::with not found in the debug dump')
    outs = M.Exec(f[0], stats=ctx.stats).run()
    ctx.functions.append(f[0].name + ' (debug)')
    n_ret = n_pan = 0
    pairs_seen = None
    for o in outs:
        cs = sig(o)
        ci = [e for e in cs if re.search(r'check_intersection::<', e.callee)]
        # which vectors feed each check: reads/writes (old node) are filled from self.head, sys_* from the new child
        fill = {}
        for e in cs:
            m = re.search(r"^<(H|T) as RunWithPool<'_>>::(reads|writes)$", e.callee)
            if m:
                fill[str(e.args[1])] = ('node' if m.group(1) == 'H' else 'child', m.group(2))
        iters = {}
        for e in cs:
            if re.search(r'impl \[(world::)?ResourceId\]>::iter$', e.callee):
                iters[str(e.result)] = e
        derefs = {}
        for e in o.trace:
            if re.search(r'<Vec<(world::)?ResourceId> as Deref>::deref$', e.callee):
                derefs[str(e.result)] = str(e.args[0])
        pairs = []
        for c in ci:
            pr = []
            for a in c.args[:2]:
                it = iters.get(str(a))
                src = derefs.get(str(it.args[0])) if it is not None else None
                pr.append(fill.get(src))
            pairs.append(frozenset(x for x in pr if x))
        want = {frozenset([('node', 'writes'), ('child', 'reads')]), frozenset([('node', 'writes'), ('child', 'writes')]), frozenset([('node', 'reads'), ('child', 'writes')])}
        def truth(c):
            for w, k in o.st.decisions:
                if str(w) == 'disc(%s)' % c.result:
                    return k != 0
                if str(w).replace('\n', '').replace(' ', '') == ('disc(mk_op_Not_1(%s))' % c.result).replace(' ', ''):
                    return k == 0
            return None
        true_seen = any(truth(c) is True for c in ci)
        all_false = all(truth(c) is False for c in ci)
        if o.kind == 'return':
            n_ret += 1
            ok = len(ci) == 3 and set(pairs) == want and all_false
            ctx.ob(key, 'Par::with (debug build): returns only after all three checks node-W/child-R, node-W/child-W, node-R/child-W found no intersection', ok, '%s decisions %s' % (pairs, o.st.decisions))
        elif o.kind == 'diverge':
            n_pan += 1
            ok = true_seen and set(pairs) <= want and 'panic' in o.detail
            ctx.ob(key, 'Par::with (debug build): panics only when one of those intersections is non-empty', ok, '%s %s' % (pairs, o.st.decisions))
    ctx.ob(key, 'Par::with (debug build): one accepting path and one rejecting path per check', n_ret == 1 and n_pan == 3, '%d/%d' % (n_ret, n_pan))


SPECS.update({'C16': [('Seq / Par / leaf bodies', spec_parseq), ('Par::with debug check', spec_par_with_debug)]})


# ================================================================================================
# C17: meta table

META = r'^src/meta.rs: impl<T: \?Sized> MetaTable<T>'


def ptr_derived(cs, t, src):
    """t is src, possibly passed through address-preserving pointer casts (cast / cast_mut / cast_const)"""
    reach = [src]
    for e in cs:
        if re.search(r'impl \*(const|mut) .*>::(cast(::<.*>)?|cast_mut|cast_const)$', e.callee) and any(e.args[0].eq(r) for r in reach):
            reach.append(e.result)
    return any(term_contains(t, r) for r in reach)


def spec_meta(ctx):
    i_vt = fidx('src/meta.rs', 'MetaTable', 'vtable_fns')
    i_ix = fidx('src/meta.rs', 'MetaTable', 'indices')
    i_ty = fidx('src/meta.rs', 'MetaTable', 'tys')
    key = 'meta-attach'
    f = [x for x in ctx.fns() if x.name == 'attach_vtable']
    if len(f) != 1:
        raise M.Unsupported('attach_vtable not found')
    outs = ctx.run(f[0])
    rets, divs = returns(outs), [o for o in outs if o.kind == 'diverge']
    ctx.ob(key, 'attach_vtable: one returning and one panicking outcome', len(rets) == 1 and len(divs) == 1 and len(outs) == 2)
    for o in outs:
        cs = sig(o)
        pats = [r'impl \*mut \(\)>::cast::<T>$', r'^<TraitObject as CastFrom<T>>::cast$', r'impl \*mut TraitObject>::cast::<\(\)>$', r'^std::ptr::eq::<\(\)>$']
        ok = len(cs) >= 4 and all(re.search(p, e.callee) for e, p in zip(cs, pats)) and ctx.valid('a', cs[0].args[0] == P(1)) and ctx.valid('b', cs[1].args[0] == cs[0].result) \
            and ctx.valid('c', cs[2].args[0] == cs[1].result) and {str(cs[3].args[0]), str(cs[3].args[1])} == {str(P(1)), str(cs[2].result)}
        ctx.ob(key, 'attach_vtable: casts the given address through CastFrom and compares the resulting address with the given one', ok, str([e.callee[:50] for e in cs]))
        if ok and o.kind == 'return':
            ctx.ob(key, 'attach_vtable: returns the cast pointer only when the address is unchanged', ctx.valid('r', to_term(o.value) == cs[1].result) and any(str(w) == 'disc(%s)' % cs[3].result and k != 0 for w, k in o.st.decisions))
        if ok and o.kind == 'diverge':
            ctx.ob(key, 'attach_vtable: a cast that changes the address panics', any(str(w) == 'disc(%s)' % cs[3].result and k == 0 for w, k in o.st.decisions) and 'panic' in o.detail)
    key = 'meta-register'
    outs = ctx.run(ctx.one(META, 'register'))
    rets = returns(outs)
    ctx.ob(key, 'register: two outcomes (type seen before / new type)', len(rets) == 2 and len(outs) == 2, str([(o.kind, o.detail) for o in outs]))
    for o in rets:
        cs = sig(o)
        tid = [e for e in cs if re.search(r'^TypeId::of::<R>$', e.callee)]
        ln = [i for i, e in enumerate(cs) if re.search(r'HashMap::<TypeId, usize.*>::len$', e.callee)]
        ent = [i for i, e in enumerate(cs) if re.search(r'HashMap::<TypeId, usize.*>::entry$', e.callee)]
        ok = len(tid) == 1 and len(ln) == 1 and len(ent) == 1 and ln[0] < ent[0] and ctx.valid('e', cs[ent[0]].args[1] == tid[0].result)
        ctx.ob(key, 'register: looks up TypeId::of::<R>() in the index map; the size is read before the entry is taken', ok, str([e.callee[:50] for e in cs]))
        if not ok:
            continue
        vac = [e for e in cs if re.search(r'VacantEntry::<.*>::insert$', e.callee)]
        pushes = [e for e in cs if re.search(r'^Vec::<.*>::push$', e.callee)]
        if vac:
            pv = [e for e in pushes if re.search(r'Vec::<fn\(\*mut \(\)\) -> \*mut T>::push$', e.callee)]
            pt = [e for e in pushes if re.search(r'Vec::<TypeId>::push$', e.callee)]
            ok2 = len(vac) == 1 and ctx.valid('v', vac[0].args[1] == cs[ln[0]].result) and len(pv) == 1 and len(pt) == 1 and len(pushes) == 2 \
                and ctx.valid('pv', pv[0].args[0] == self_field(i_vt)) and ctx.valid('pt', pt[0].args[0] == self_field(i_ty)) and ctx.valid('ptv', pt[0].args[1] == tid[0].result) \
                and any(isinstance(a, Cst) and re.search(r'attach_vtable::<T, R>', a.text) for a in pv[0].argvals)
            ctx.ob(key, 'register (new type): index := old size; vtable_fns and tys each grow by one (attach_vtable::<T, R>, TypeId of R)', ok2, str([e.callee[:50] for e in cs]))
        else:
            g = [e for e in cs if re.search(r'OccupiedEntry::<.*>::get$', e.callee)]
            im = [e for e in cs if re.search(r'as IndexMut<usize>>::index_mut$', e.callee)]
            ok2 = not pushes and len(g) == 1 and len(im) == 1 and ctx.valid('im', im[0].args[0] == self_field(i_vt)) and term_contains(im[0].args[1], g[0].result)
            w = final_heap(o, M.f_deref(im[0].result), []) if im else None
            ok2 = ok2 and isinstance(w, Cst) and re.search(r'attach_vtable::<T, R>', w.text) is not None
            ctx.ob(key, 'register (type seen before): nothing grows; the function at the stored index is replaced by attach_vtable::<T, R>', ok2, '%s / %r' % ([e.callee[:50] for e in cs], w))
    for nm, cast in (('get', r'impl \*const dyn Resource>::cast::<\(\)>$'), ('get_mut', r'impl \*mut dyn Resource>::cast::<\(\)>$')):
        key = 'meta-' + nm
        o = straight(ctx, key, ctx.one(META, nm), 'MetaTable::' + nm)
        if o:
            cs = match_calls(ctx, key, 'MetaTable::' + nm, o, [r'^<dyn Resource as Any>::type_id$', r'AHashMap::<TypeId, usize>::get::<TypeId>$', r'^Option::<&usize>::map::<&(mut )?T, \{closure@src/meta.rs'])
            if cs:
                kv = None
                m = re.match(r'^ref\(local_(_\d+)\)$', str(cs[1].args[1]))
                kv = o.st.store.get(('L', m.group(1)), {}).get(()) if m else None
                ok = ctx.valid('g1', cs[1].args[0] == self_field(i_ix)) and kv is not None and ctx.valid('g2', to_term(kv) == cs[0].result) and term_contains(cs[0].args[0], P(2)) \
                    and ctx.valid('g3', cs[2].args[0] == cs[1].result) and ctx.valid('g4', to_term(o.value) == cs[2].result)
                ctx.ob(key, '%s: Some exactly when the index map has the DYNAMIC type id of the resource passed in' % nm, ok)
                cl = cs[2].argvals[1]
                okc = isinstance(cl, Agg) and len(cl.fields) == 2 and ctx.valid('c1', to_term(cl.fields[0]) == P(1)) and ctx.valid('c2', to_term(cl.fields[1]) == P(2))
                ctx.ob(key, '%s: the conversion closure captures this table and that resource' % nm, okc, repr(cl))
        clf = closure_of(ctx, '::%s::{closure#0}' % nm, 'meta.rs')
        oc = straight(ctx, key, clf, nm + ' closure')
        if oc:
            cs = sig(oc)
            ix = [e for e in cs if re.search(r'as Index<usize>>::index$', e.callee)]
            ind = [e for e in cs if e.callee.startswith('indirect:')]
            ca = [e for e in cs if re.search(cast, e.callee)]
            ok = len(ix) == 1 and len(ind) == 1 and len(ca) == 1 and term_contains(ix[0].args[0], M.f_fld(M.f_deref(M.f_fld(P(1), 0)), i_vt)) and ctx.valid('i2', ix[0].args[1] == M.f_deref(P(2))) \
                and ind[0].callee == 'indirect:' + str(M.f_deref(ix[0].result)) and ctx.valid('i3', ca[0].args[0] == M.f_fld(P(1), 1)) and ptr_derived(cs, ind[0].args[0], ca[0].result)
            ctx.ob(key, '%s: calls the function stored at the found index on the address of that very resource' % nm, ok, str([e.callee[:60] for e in cs]))
            ok = isinstance(oc.value, Ref) and term_contains(to_term(oc.value), ind[0].result) if ind else False
            ctx.ob(key, '%s: returns the pointer that function produced (same address, vtable attached)' % nm, ok, repr(oc.value))
    # iteration
    for hdr, nm, bw in ((r"Iterator for MetaIter<'a, T>", 'MetaIter', 'borrow'), (r"Iterator for MetaIterMut<'a, T>", 'MetaIterMut', 'borrow_mut')):
        key = 'meta-iter'
        fs = ctx.find(hdr, 'next')
        i_idx = fidx('src/meta.rs', nm, 'index')
        i_tys = fidx('src/meta.rs', nm, 'tys')
        i_vf = fidx('src/meta.rs', nm, 'vtable_fns')
        i_w = fidx('src/meta.rs', nm, 'world')
        outs = ctx.run(fs[0], 3)
        rets = returns(outs)
        ok_all, n_some = True, 0
        why = ''
        for o in rets:
            cs = sig(o)
            gets = [e for e in cs if re.search(r'impl \[TypeId\]>::get::<usize>$', e.callee)]
            tfi = [e for e in cs if re.search(r'World::try_fetch_internal$', e.callee)]
            frm = [e for e in cs if re.search(r'ResourceId::from_type_id$', e.callee)]
            # walk tys in order: k-th lookup at index0 + k
            idx0 = M.f_fld(M.f_deref(P(1)), i_idx)
            for k, g in enumerate(gets):
                if not ctx.valid('tys', g.args[0] == M.f_fld(M.f_deref(P(1)), i_tys)):
                    ok_all, why = False, 'tys.get on another slice'
                if k == 0 and not ctx.valid('idx0', g.args[1] == idx0):
                    ok_all, why = False, 'first lookup not at self.index'
                if k > 0 and not term_contains(g.args[1], gets[k - 1].args[1]):
                    ok_all, why = False, 'lookup %d not at previous index + 1' % k
            for k, t in enumerate(tfi):
                if not (ctx.valid('w', t.args[0] == M.f_fld(M.f_deref(P(1)), i_w)) and k < len(frm) and ctx.valid('rid', t.args[1] == frm[k].result) and term_contains(frm[k].args[0], gets[k].result)):
                    ok_all, why = False, 'world cell not looked up under the type id just read'
            if isinstance(o.value, Agg) and o.value.variant == 'Some':
                n_some += 1
                mp = [e for e in cs if re.search(r'atomic_refcell::AtomicRef(Mut)?::<.*>::map::<T, \{closure@src/meta.rs', e.callee)]
                b = [e for e in cs if re.search(CELL + bw + '$', e.callee)]
                if len(mp) != 1 or len(b) != 1 or not gets:
                    ok_all, why = False, 'yield without exactly one %s + map' % bw
                    continue
                cl = mp[0].argvals[1]
                cap = cl.fields[0] if isinstance(cl, Agg) and cl.fields else None
                v = None
                if isinstance(cap, Ref):
                    v = M.Exec(fs[0]).read(cap.place, o.st) if False else o.st.store.get(cap.place.key(), {}).get(cap.place.path)
                elif cap is not None:
                    v = cap
                vt = to_term(v) if v is not None else None
                good = vt is not None and z3.is_app(vt) and vt.decl().name() == 'mk_index_2' and ctx.valid('vt idx', vt.arg(1) == gets[-1].args[1]) and term_contains(vt.arg(0), M.f_fld(M.f_deref(P(1)), i_vf))
                if not good:
                    ok_all, why = False, 'vtable function not taken at the index of the type id just read: %s vs %s' % (vt, gets[-1].args[1])
                if not ctx.valid('yield', to_term(o.value.fields[0]) == mp[0].result) or not ctx.valid('bsrc', mp[0].args[0] == b[0].result):
                    ok_all, why = False, 'yielded value is not the mapped borrow'
                # the cursor left behind is one past the entry just yielded (also after skipping absent types): nothing is yielded twice
                left = final_heap(o, M.f_deref(P(1)), [i_idx])
                lt = to_term(left) if left is not None else None
                pos = gets[-1].args[1]
                if not (lt is not None and z3.is_app(lt) and lt.decl().name().startswith('mk_op_Add') and lt.num_args() == 2 and lt.arg(0).eq(pos) and '1_usize' in _cst_text(str(lt.arg(1)))):
                    ok_all, why = False, 'after yielding the entry at %s the iterator\'s index is left at %s (must be that position + 1)' % (str(pos).replace('\n', ' ')[:80], str(lt).replace('\n', ' ')[:120])
            elif isinstance(o.value, Agg) and o.value.variant == 'None':
                # exhausted: the last tys.get said None
                if not (gets and any(str(w) == 'disc(%s)' % gets[-1].result and k == 0 for w, k in o.st.decisions)):
                    ok_all, why = False, 'None although tys is not exhausted'
            else:
                ok_all, why = False, 'unexpected value %r' % (o.value,)
        ctx.ob(key, '%s::next: walks tys from self.index in order, skips absent resources, yields %s() of the cell of the type id just read with the vtable function stored at THAT index; None only when tys is exhausted' % (nm, bw),
               ok_all and n_some >= 3, why or '%d yielding paths' % n_some)
    for nm in ('iter', 'iter_mut'):
        o = straight(ctx, 'meta-iter', ctx.one(META, nm), 'MetaTable::' + nm)
        if o:
            v = o.value
            st = 'MetaIter' if nm == 'iter' else 'MetaIterMut'
            ok = isinstance(v, Agg) and isinstance(v.fields[fidx('src/meta.rs', st, 'index')], Cst) and v.fields[fidx('src/meta.rs', st, 'index')].text.startswith('0_usize') \
                and ctx.valid('w', to_term(v.fields[fidx('src/meta.rs', st, 'world')]) == P(2))
            ctx.ob('meta-iter', 'MetaTable::%s starts at index 0 over this table\'s tys / vtable_fns and the given world' % nm, ok, repr(v)[:200])


SPECS.update({'C17': [('meta table', spec_meta)]})


# ================================================================================================
# C20: the printed plan

def spec_print(ctx):
    f = ctx.one(SB, 'write_par_seq')
    i_ids = fidx('src/dispatch/stage.rs', 'StagesBuilder', 'ids')
    outs = M.Exec(f, loop_bound=1, stats=ctx.stats).run()
    ctx.functions.append(f.name)
    key = 'print-structure'
    rets = returns(outs)
    ctx.ob(key, 'write_par_seq: the function itself has no panicking path (only fmt errors end it early)', all(o.kind in ('return', 'bound') for o in outs), str(sorted(set((o.kind, o.detail[:40]) for o in outs))))
    ok_iter = ok_get = True
    unwraps = []
    why = ''
    full = 0
    for o in rets:
        cs = sig(o, noise=r'^drop$')
        it = [e for e in cs if re.search(r'as IntoIterator>::into_iter$', e.callee)]
        nx = [e for e in cs if re.search(r'as Iterator>::next$', e.callee)]
        def some(e):
            return any(str(w) == 'disc(%s)' % e.result and k == 1 for w, k in o.st.decisions)
        st_nx = [e for e in nx if re.search(r'slice::Iter<\'_, SmallVec<\[ArrayVec<SystemId, 5>; 6\]>>', e.callee)]
        gr_nx = [e for e in nx if re.search(r'slice::Iter<\'_, ArrayVec<SystemId, 5>>', e.callee)]
        sy_nx = [e for e in nx if re.search(r'slice::Iter<\'_, SystemId>', e.callee)]
        if it and not ctx.valid('ids', it[0].args[0] == self_field(i_ids)):
            ok_iter, why = False, 'outer loop does not walk self.ids: %s' % it[0].args[0]
        # nesting: each inner loop iterates the item most recently yielded by the enclosing loop
        def last_before(lst, e):
            prev = [n for n in lst if cs.index(n) < cs.index(e) and some(n)]
            return prev[-1] if prev else None
        for e in it:
            if re.search(r'^<&SmallVec<\[ArrayVec<SystemId, 5>; 6\]> as IntoIterator>', e.callee):
                src = last_before(st_nx, e)
            elif re.search(r'^<&ArrayVec<SystemId, 5> as IntoIterator>', e.callee):
                src = last_before(gr_nx, e)
            else:
                continue
            if src is None or not term_contains(e.args[0], src.result):
                ok_iter, why = False, 'an inner loop does not iterate the item just yielded by the enclosing loop'
        gets = [e for e in cs if re.search(r'HashMap::<SystemId, &str.*>::get::<SystemId>$', e.callee)]
        n_sys = len([e for e in sy_nx if some(e)])
        if len(gets) != n_sys:
            ok_get, why = False, '%d name lookups for %d systems' % (len(gets), n_sys)
        for g in gets:
            src = last_before(sy_nx, g)
            if src is None or not term_contains(g.args[1], src.result):
                ok_get, why = False, 'name lookup is not keyed by the system id just yielded'
            for e in cs:
                if re.search(r'^Option::<.*>::(unwrap|expect)$', e.callee) and e.args and e.args[0].eq(g.result):
                    unwraps.append(e.callee)
        # count lines on complete Ok paths
        wr = [e for e in cs if re.search(r'Formatter::<\'_>::write_fmt$', e.callee)]
        br = [e for e in cs if re.search(r'<Result<\(\), std::fmt::Error> as Try>::branch$', e.callee)]
        err = any(any(str(w) == 'disc(%s)' % e.result and k == 1 for w, k in o.st.decisions) for e in br)
        if not err and (not nx or not some(nx[-1])):
            n_st = len([e for e in st_nx if some(e)]); n_gr = len([e for e in gr_nx if some(e)])
            if not err and st_nx and not some(st_nx[-1]):
                full += 1
                if len(wr) != 2 + 2 * n_st + 2 * n_gr + n_sys:
                    ok_get, why = False, '%d lines written for %d stages, %d groups, %d systems' % (len(wr), n_st, n_gr, n_sys)
    ctx.ob(key, 'write_par_seq: seq![ par![ seq![ name, ] ] ]: walks self.ids stage by stage, group by group, system by system', ok_iter, why)
    ctx.ob(key, 'write_par_seq: exactly one name line per tabulated system and two bracket lines per stage / group / plan', ok_get and full >= 2, why or '%d complete paths' % full)
    # named -> sanitised name, unnamed -> placeholder: exactly one of the two per system, chosen by the lookup result
    ok_ph, why_ph = True, ''
    for o in rets:
        cs = sig(o, noise=r'^drop$')
        gets = [e for e in cs if re.search(r'HashMap::<SystemId, &str.*>::get::<SystemId>$', e.callee)]
        for g in gets:
            d = [k for w, k in o.st.decisions if str(w) == 'disc(%s)' % g.result]
            nxt = cs[cs.index(g) + 1:]
            stop = [i for i, e in enumerate(nxt) if re.search(r'HashMap::<SystemId, &str.*>::get::<SystemId>$', e.callee)]
            seg = nxt[:stop[0]] if stop else nxt
            rep = [e for e in seg if re.search(r'impl str>::replace::<\[char; 3\]>$', e.callee)]
            fmt_ = [e for e in seg if e.callee == 'format' or re.search(r'fmt::format$', e.callee)]
            if not d:
                continue        # lookup result not inspected on this path (handled by the unwrap obligation)
            if d[0] == 1 and not (len(rep) == 1 and not fmt_ and term_contains(rep[0].args[0], g.result)):
                ok_ph, why_ph = False, 'a named system is not printed as its sanitised name'
            if d[0] == 0 and not (len(fmt_) == 1 and not rep):
                ok_ph, why_ph = False, 'an unnamed system is not printed as a placeholder'
            pat = [repr(a) for e in rep for a in e.argvals]
            if rep and not any("' '" in t and "'-'" in t and "'/'" in t for t in pat):
                ok_ph, why_ph = False, 'sanitising does not replace exactly space, dash and slash: %s' % pat
    ctx.ob('print-structure', 'write_par_seq: a named system is printed as its name with space, dash, slash replaced; an unnamed one as a placeholder; never both', ok_ph, why_ph)
    ctx.ob('print-unnamed', 'write_par_seq: the name lookup of a system is not unwrapped (unnamed systems have no entry in the name map: a placeholder must be printed instead of panicking)', not unwraps, str(sorted(set(unwraps))))
    # the inverted map: id -> name
    cl = closure_of(ctx, '::write_par_seq::{closure#0}', 'stage.rs')
    o = straight(ctx, key, cl, 'name map inversion')
    if o:
        v = o.value
        ok = isinstance(v, Agg) and len(v.fields) == 2 and 'deref(fld(p2, 1))' in str(to_term(v.fields[0])).replace('\n', '') and term_contains(to_term(v.fields[1]) if not isinstance(v.fields[1], Ref) else to_term(v.fields[1]), M.f_fld(P(2), 0)) or \
            (isinstance(v, Agg) and len(v.fields) == 2 and 'fld(p2, 1)' in str(to_term(v.fields[0])) and 'fld(p2, 0)' in str([e.args for e in o.trace]) + str(to_term(v.fields[1])))
        ctx.ob(key, 'write_par_seq: the name map is inverted as (id -> name)', ok, repr(v))
    # Debug / print_par_seq forward
    o = straight(ctx, key, ctx.one(r'^src/dispatch/builder.rs: impl fmt::Debug for DispatcherBuilder', 'fmt'), 'Debug for DispatcherBuilder')
    if o:
        cs = match_calls(ctx, key, 'Debug for DispatcherBuilder', o, [r'^StagesBuilder::<.*>::write_par_seq$'])
        if cs:
            i_sb = fidx('src/dispatch/builder.rs', 'DispatcherBuilder', 'stages_builder')
            i_map = fidx('src/dispatch/builder.rs', 'DispatcherBuilder', 'map')
            ok = ctx.valid('d0', cs[0].args[0] == self_field(i_sb)) and ctx.valid('d1', cs[0].args[1] == P(2)) and term_contains(cs[0].args[2], M.f_fld(M.f_deref(P(1)), i_map))
            ctx.ob(key, 'Debug for DispatcherBuilder prints the planner tables of this builder with this builder\'s name map', ok)

    # print_par_seq: prints the builder itself through its Debug impl (checked above), once, and nothing else
    o = straight(ctx, key, ctx.one(BUILDER, 'print_par_seq'), 'DispatcherBuilder::print_par_seq')
    if o:
        cs = match_calls(ctx, key, 'DispatcherBuilder::print_par_seq', o, [r"Argument::<'_>::new_debug::<&DispatcherBuilder<'_, '_>>$", r"^Arguments::<'_>::new(_const|_v1)?\b", r'^std::io::_print$'], noise=r'^drop$')
        if cs:
            def local_val(v):
                if isinstance(v, Ref) and v.place.base[0] == 'L':
                    return o.st.store.get(v.place.key(), {}).get(v.place.path)
                return v
            a0 = local_val(cs[0].argvals[0]) if cs[0].argvals else None
            r0 = cs[0].argvals[0] if cs[0].argvals else None
            if a0 is None and isinstance(r0, Ref) and str(r0.place.base[1]).lstrip('_') == '1' and r0.place.base[0] == 'L' and not r0.place.path:
                a0 = r0      # the parameter itself, never reassigned
                ok_self = True
            else:
                ok_self = a0 is not None and not isinstance(a0, Ref) and to_term(a0).eq(P(1))
            pieces = [local_val(v) for v in cs[1].argvals]
            ok_args = any(isinstance(v, Agg) and len(v.fields) == 1 and to_term(v.fields[0]).eq(cs[0].result) for v in pieces if v is not None) or \
                any(term_contains(a, cs[0].result) for a in cs[1].args)
            ok_pr = cs[2].args and cs[2].args[0].eq(cs[1].result)
            ctx.ob(key, 'print_par_seq: the one thing formatted is this builder, through its Debug impl, and the formatted text is what is printed', bool(ok_self and ok_args and ok_pr), 'formatted %r, argument array %r, printed %s' % (a0, pieces, cs[2].args[:1]))


SPECS.update({'C20': [('plan printer', spec_print)]})


# ================================================================================================
# the commit part of StagesBuilder::insert (C01 C04 C05 C19)

def spec_insert(ctx):
    key = 'planner-insert'
    f = ctx.one(SB, 'insert')
    outs = ctx.run(f)
    rets = returns(outs)
    ctx.ob(key, 'insert: three normal outcomes (new group in a stage / join a group / new stage), nothing else', len(rets) == 3 and len(outs) == 3, str([(o.kind, o.detail, o.st.decisions) for o in outs]))
    F = {n: fidx('src/dispatch/stage.rs', 'StagesBuilder', n) for n in ('ids', 'reads', 'running_time', 'stages', 'writes')}
    i_groups = fidx('src/dispatch/stage.rs', 'Stage', 'groups')
    seen = set()
    for o in rets:
        cs = sig(o)
        rd = [e for e in cs if re.search(r'as (system::)?Accessor>::reads$', e.callee)]
        wr = [e for e in cs if re.search(r'as (system::)?Accessor>::writes$', e.callee)]
        rt = [e for e in cs if re.search(r"System<'_>>::running_time$", e.callee)]
        it = [e for e in cs if re.search(r'StagesBuilder::<.*>::insertion_target::<', e.callee)]
        ok = len(rd) == 1 and len(wr) == 1 and len(rt) == 1 and len(it) == 1
        ctx.ob(key, 'insert: asks the system once for reads, writes and running time and the planner once for the target', ok, str([e.callee[:50] for e in cs][:12]))
        if not ok:
            continue
        tgt = it[0]
        srt = [e for e in cs if re.search(r'impl \[(world::)?ResourceId\]>::sort(_unstable)?$', e.callee)]
        ddp = [e for e in cs if re.search(r'Vec::<(world::)?ResourceId>::dedup$', e.callee)]
        ctx.ob(key, 'insert: the planner sees the declared reads (sorted, de-duplicated), the declared writes, the dependency list and the running time of this system',
               len(srt) == 1 and len(ddp) == 1 and ctx.valid('it self', tgt.args[0] == P(1)) and ctx.valid('it time', tgt.args[4] == rt[0].result) and str(tgt.args[3]) == 'ref(local__2)'
               and cs.index(srt[0]) < cs.index(tgt) and cs.index(ddp[0]) < cs.index(tgt))
        d = [k for w, k in o.st.decisions if str(w) == 'disc(%s)' % tgt.result]
        variant = d[0] if d else None
        seen.add(variant)
        adds = [e for e in cs if re.search(r'StagesBuilder::<.*>::add_(stage|group)$', e.callee)]
        if variant == 2 or variant is None and any('add_stage' in e.callee for e in adds):      # NewStage
            ln = [e for e in cs if re.search(r'^Vec::<Stage<.*>>::len$', e.callee)]
            ok = len(ln) == 1 and [re.search(r'add_(stage|group)$', e.callee).group(1) for e in adds] == ['stage', 'group'] and ctx.valid('ns', adds[1].args[1] == ln[0].result) and cs.index(ln[0]) < cs.index(adds[0])
            ctx.ob(key, 'insert/NewStage: appends one stage and one group to it (stage index = number of stages before)', ok, str([e.callee[-12:] for e in adds]))
            stage, group = (ln[0].result if ln else None), M.cst_term('0_usize')
            what = 'NewStage'
        elif variant == 1:
            ctx.ob(key, 'insert/Group: creates neither stage nor group', not adds, str([e.callee[-12:] for e in adds]))
            stage, group = M.f_fld(M.mk_fn('as_Group', 1)(tgt.result), 0), M.f_fld(M.mk_fn('as_Group', 1)(tgt.result), 1)
            what = 'Group'
        else:
            stage = M.f_fld(M.mk_fn('as_Stage', 1)(tgt.result), 0)
            ln = [e for e in cs if re.search(r'^SmallVec::<\[ArrayVec<SystemId, 5>; 6\]>::len$', e.callee)]
            ok = len(ln) == 1 and len(adds) == 1 and 'add_group' in adds[0].callee and ctx.valid('sg', adds[0].args[1] == stage) and cs.index(ln[0]) < cs.index(adds[0])
            ctx.ob(key, 'insert/Stage: appends exactly one group to the target stage (group index = number of groups before)', ok, str([e.callee[-12:] for e in adds]))
            group = ln[0].result if ln else None
            what = 'Stage'
        if stage is None or group is None:
            continue

        def slot(field, via_groups=False):
            for a in cs:
                if re.search(r'as IndexMut<usize>>::index_mut$', a.callee) and a.args[0].eq(M.f_ref(M.f_fld(M.f_deref(P(1)), F[field]))) and ctx.valid('st', a.args[1] == stage):
                    base = M.f_ref(M.f_fld(M.f_deref(a.result), i_groups)) if via_groups else a.result
                    for b2 in cs:
                        if re.search(r'as IndexMut<usize>>::index_mut$', b2.callee) and b2.args[0].eq(base) and ctx.valid('gr', b2.args[1] == group):
                            return b2.result
            return None
        s_ids, s_rd, s_rt, s_st, s_wr = slot('ids'), slot('reads'), slot('running_time'), slot('stages', True), slot('writes')
        ctx.ob(key, 'insert/%s: addresses the same (stage, group) slot in all five tables' % what, all(x is not None for x in (s_ids, s_rd, s_rt, s_st, s_wr)))
        if any(x is None for x in (s_ids, s_rd, s_rt, s_st, s_wr)):
            continue
        pid_ = [e for e in cs if re.search(r'^ArrayVec::<SystemId, 5>::push$', e.callee)]
        pst = [e for e in cs if re.search(r'^ArrayVec::<Box<dyn for<\'_> RunNow<\'_> \+ Send>, 5>::push$', e.callee)]
        bx = [e for e in cs if re.search(r'^Box::<T>::new$', e.callee)]
        ext = [e for e in cs if re.search(r'as Extend<(world::)?ResourceId>>::extend::<', e.callee)]
        ok = len(pid_) == 1 and ctx.valid('pi', pid_[0].args[0] == s_ids) and ctx.valid('pi2', pid_[0].args[1] == P(3))
        ctx.ob(key, 'insert/%s: the id is pushed into the id table at the slot, once' % what, ok)
        ok = len(pst) == 1 and len(bx) == 1 and ctx.valid('ps', pst[0].args[0] == s_st) and ctx.valid('ps2', pst[0].args[1] == bx[0].result) and ctx.valid('ps3', bx[0].args[0] == P(4))
        ctx.ob(key, 'insert/%s: the boxed system is pushed into the executed list at the same slot, once' % what, ok)
        er = [e for e in ext if e.args[0].eq(s_rd)]
        ew = [e for e in ext if e.args[0].eq(s_wr)]
        ok = len(ext) == 2 and len(er) == 1 and len(ew) == 1 and ctx.valid('er', er[0].args[1] == rd[0].result) and ctx.valid('ew', ew[0].args[1] == wr[0].result)
        ctx.ob(key, 'insert/%s: ALL declared reads extend the slot\'s read table and ALL declared writes its write table (unconditionally, not swapped)' % what, ok, str([(str(e.args[0]), str(e.args[1])) for e in ext]))
        v = final_heap(o, M.f_deref(s_rt), [])
        ok = v is not None and 'op_Add' in str(to_term(v)) and term_contains(to_term(v), rt[0].result) and term_contains(to_term(v), M.f_deref(s_rt))
        ctx.ob(key, 'insert/%s: running time of the slot := old + this system\'s' % what, ok, repr(v))
        muts = [e.callee for e in cs if re.search(r'::(push|extend|insert|remove|retain|clear|truncate|pop|append|swap_remove|drain)(::<.*>)?$', e.callee)]
        ctx.ob(key, 'insert/%s: no other mutation of the tables' % what, len(muts) == 4, str(muts))
    ctx.ob(key, 'insert: all three targets are handled', seen >= {0, 1, 2} or seen >= {0, 1, None}, str(seen))
    # add_stage / add_group keep the five tables in lock-step
    for nm, n_push in (('add_stage', 5), ('add_group', 5)):
        o = straight(ctx, key, ctx.one(SB, nm), nm)
        if o:
            pushes = [e for e in sig(o) if re.search(r'::push$', e.callee)]
            fields = set()
            for e in pushes:
                for fn_, ix in F.items():
                    if term_contains(e.args[0], M.f_fld(M.f_deref(P(1)), ix)) or any(term_contains(e.args[0], x.result) and term_contains(x.args[0], M.f_fld(M.f_deref(P(1)), ix)) for x in sig(o) if 'index_mut' in x.callee):
                        fields.add(fn_)
            ctx.ob(key, '%s pushes exactly one new entry into each of the five tables' % nm, len(pushes) == n_push and fields == set(F), '%d pushes, tables %s' % (len(pushes), sorted(fields)))


for _p in ('C01', 'C04', 'C05', 'C19'):
    SPECS.setdefault(_p, [])
    SPECS[_p] = SPECS[_p] + [('commit part of insert', spec_insert)]


# ================================================================================================
# feature configurations (C05, C19): the crate built without `parallel`

PLACEMENT_FNS = ['insertion_target', 'insertion_target::{closure#0}', 'insertion_target::{closure#1}', 'insertion_target::{closure#2}', 'find_conflict', 'find_conflict::{closure#0}',
                 'remove_ids', 'remove_ids::{closure#0}', 'improves_balance', 'insert', 'add_stage', 'add_group', 'add_barrier', 'build', 'fetch_all_reads', 'fetch_all_writes']


def _body_text(f):
    out = []
    for bb in sorted(f.blocks, key=lambda b: int(b[2:])):
        out.append(bb + ('(cleanup)' if bb in f.cleanup else ''))
        out += f.blocks[bb]
    t = '\n'.join(out)
    t = re.sub(r'src/[\w/]+\.rs:\d+:\d+: \d+:\d+', 'LOC', t)
    t = re.sub(r'\b(?:[a-z_][a-z0-9_]*::)+', '', t)     # rustc trims module paths depending on what is in scope
    return t


def spec_feature_configs(ctx):
    """The placement code is the same code with and without the `parallel` feature; without it dispatch is dispatch_seq."""
    key = 'feature-configs'
    a = {f.short: f for f in ctx.fns('default') if re.search(SB, f.impl_header) or f.name.startswith('check_intersection')}
    b = {f.short: f for f in ctx.fns('nopar') if re.search(SB, f.impl_header) or f.name.startswith('check_intersection')}
    names = PLACEMENT_FNS + [n for n in a if n.startswith('check_intersection')]
    names = [n for n in names if '{closure#' not in n or n in a or n in b]      # closures come and go with the coding style
    missing = [n for n in names if n not in a or n not in b]
    ctx.ob(key, 'every placement function exists in both feature configurations', not missing, str(missing))
    diff = [n for n in names if n in a and n in b and _body_text(a[n]) != _body_text(b[n])]
    for n in names:
        if n in a:
            ctx.functions.append(a[n].name + ' (default vs no-default-features)')
    ctx.ob(key, 'the MIR bodies of the placement functions are identical with and without the `parallel` feature (same plan in both configurations)', not diff, str(diff))
    S = r'^src/dispatch/send_dispatcher.rs: impl SendDispatcher<'
    fs = [f for f in ctx.fns('nopar') if f.short == 'dispatch' and re.search(S, f.impl_header)]
    if len(fs) == 1:
        outs = M.Exec(fs[0], stats=ctx.stats).run()
        rets = returns(outs)
        ok = len(rets) == 1 and len(outs) == 1 and [bool(re.search(r'^SendDispatcher::<.*>::dispatch_seq$', e.callee)) for e in sig(rets[0])] == [True]
        ctx.ob(key, 'without `parallel`, dispatch is exactly dispatch_seq', ok, str([e.callee for e in sig(rets[0])]) if rets else '')
    else:
        ctx.ob(key, 'SendDispatcher::dispatch found in the no-default-features dump', False)


SPECS['C19'] = SPECS['C19'] + [('feature configurations', spec_feature_configs)]
# a batch takes part in planning through the access set add_batch announces for it (and the wrapper reports): isolation and
# schedule independence of a plan with batches rest on it as much as C07 does
for _p in ('C01', 'C05'):
    SPECS[_p] = SPECS[_p] + [('add_batch announces the union', spec_add_batch), ('batch wrapper reports it', spec_batch_wrapper)]
SPECS['C05'] = SPECS.get('C05', []) + [('feature configurations', spec_feature_configs)]


# ================================================================================================
# C03: the stage search starts at the barrier index

def spec_insertion_target(ctx):
    key = 'planner-scan-range'
    f = ctx.one(SB, 'insertion_target')
    i_bar = fidx('src/dispatch/stage.rs', 'StagesBuilder', 'barrier')
    i_st = fidx('src/dispatch/stage.rs', 'StagesBuilder', 'stages')
    outs = ctx.run(f)
    rets = returns(outs)
    ctx.ob(key, 'insertion_target: only normal paths', len(rets) >= 1 and all(o.kind in ('return', 'bound') for o in outs), str(sorted(set((o.kind, o.detail[:30]) for o in outs))))
    bar = M.f_fld(M.f_deref(P(1)), i_bar)
    ok_all, why = True, ''
    for o in rets:
        cs = sig(o)
        def rng_of(e):
            # the range an adaptor is called on: passed by value, or through `&mut local` (find_map, position, ... take &mut self)
            v = e.argvals[0] if e.argvals else None
            if isinstance(v, Ref) and v.place.base[0] == 'L':
                v = o.st.store.get(v.place.key(), {}).get(v.place.path)
            return v

        def is_range(e):
            v = rng_of(e)
            return isinstance(v, Agg) and len(v.fields) == 2 and re.search(r'Range', v.kind)
        # the scan over the stages: an iterator chain (`(a..b).map(..).find(..)`) or a `for stage in a..b` loop
        scans = [e for e in cs if is_range(e) and re.search(r'^<std::ops::Range<usize> as (Iterator>::(map|find_map|find|filter_map|filter|position|any|all|try_for_each|for_each|rev|take_while|skip_while)\b|IntoIterator>::into_iter$)', e.callee)
                 and not (isinstance(rng_of(e).fields[0], Cst) and rng_of(e).fields[0].text.startswith('0_usize'))]
        if len(scans) != 1:
            ok_all, why = False, 'expected exactly one scan over a range of stages, found %d' % len(scans)
            break
        rng = rng_of(scans[0])
        ln = [e for e in cs if re.search(r'^Vec::<Stage<.*>>::len$', e.callee) and cs.index(e) < cs.index(scans[0])]
        if not (isinstance(rng, Agg) and len(rng.fields) == 2):
            ok_all, why = False, 'scan range is not a literal start..end: %r' % (rng,)
            break
        if not ctx.valid('scan start', to_term(rng.fields[0]) == bar):
            ok_all, why = False, 'the stage search does not start at the barrier index: start = %s' % to_term(rng.fields[0])
            break
        if not (ln and any(ctx.valid('scan end', to_term(rng.fields[1]) == e.result) and ctx.valid('len arg', e.args[0] == self_field(i_st)) for e in ln)):
            ok_all, why = False, 'the stage search does not end at the number of stages: end = %s' % to_term(rng.fields[1])
            break
        # anything that happens before the scan may only cross dependencies off for stages in front of the barrier
        pre = cs[:cs.index(scans[0])]
        rm = [e for e in pre if re.search(r'StagesBuilder::<.*>::remove_ids$', e.callee)]
        rngs = [e for e in pre if re.search(r'<std::ops::Range<usize> as IntoIterator>::into_iter$', e.callee) and e is not scans[0]]
        for e in rngs:
            r = e.argvals[0]
            if not (isinstance(r, Agg) and isinstance(r.fields[0], Cst) and r.fields[0].text.startswith('0_usize') and ctx.valid('pre end', to_term(r.fields[1]) == bar)):
                ok_all, why = False, 'a pre-pass iterates something other than the stages 0..barrier'
        other = [e.callee for e in pre if re.search(r'StagesBuilder::<', e.callee) and e not in rm]
        if other:
            ok_all, why = False, 'unexpected planner call before the scan: %s' % other
    ctx.ob(key, 'insertion_target: the stage search runs over barrier..number_of_stages (a pre-pass may only cross off dependencies of stages 0..barrier)', ok_all, why)


def _flat(t):
    return str(t).replace('\n', ' ').replace(' ', '')


def _cst_text(term_text):
    inv = {v: k for k, v in M._cst_ids.items()}
    return re.sub(r'cst\((\d+)\)', lambda m: '<%s>' % inv.get(int(m.group(1)), '?'), term_text)


def spec_insertion_closures(ctx):
    """The per-stage steps of insertion_target, for tables of ANY size (the Kani step harnesses decide the same
    code semantically on small concrete shapes): which tables find_conflict is shown, which verdicts make a stage
    acceptable, and which target a verdict is turned into."""
    key = 'planner-stage-steps'
    cl = sorted([f for f in ctx.fns() if re.search(r'::insertion_target::\{closure#\d+\}$', f.name) and 'stage.rs' in f.name], key=lambda f: f.name)
    if len(cl) != 3 or [len(f.params) for f in cl] != [2, 2, 2]:
        ctx.equiv_notes = getattr(ctx, 'equiv_notes', [])
        ctx.equiv_notes.append('insertion_target is not the reviewed map/find/map chain (%d closures): per-stage steps not specified for this shape; the Kani step harnesses still decide it on the bounded shapes' % len(cl))
        return
    c_map, c_find, c_tgt = cl
    T_ = 'src/dispatch/stage.rs'
    i_ids, i_r, i_w, i_st = (fidx(T_, 'StagesBuilder', n) for n in ('ids', 'reads', 'writes', 'stages'))
    i_groups = fidx(T_, 'Stage', 'groups')
    # ---- closure 0: (stage) -> (stage, find_conflict(tables, stage, reads, writes, deps)); then cross the stage's ids off
    o = straight(ctx, key, c_map, 'per-stage verdict closure')
    if o:
        cs = [e for e in sig(o) if not re.search(r' as Deref(Mut)?>::deref(_mut)?$| as Clone>::clone$', e.callee)]
        fc = [e for e in cs if re.search(r'StagesBuilder::<.*>::find_conflict::<', e.callee)]
        rm = [e for e in cs if re.search(r'StagesBuilder::<.*>::remove_ids$', e.callee)]
        ok = len(cs) == 2 and len(fc) == 1 and len(rm) == 1 and cs.index(fc[0]) < cs.index(rm[0])
        why = str([e.callee[:60] for e in cs])
        if ok:
            allc = list(o.trace)
            def src_of(t):          # a Deref result -> what was dereferenced; a clone result -> what was cloned
                for e in allc:
                    if e.result is not None and t.eq(e.result) and re.search(r' as Deref>::deref$| as Clone>::clone$', e.callee):
                        return _flat(e.args[0])
                return _flat(t)
            a = fc[0].args
            tabs = [src_of(a[0]), src_of(a[1]), src_of(a[2])]
            want = ['fld(deref(fld(deref(p1),0)),%d)' % i for i in (i_ids, i_r, i_w)]
            ok = all(w in t for w, t in zip(want, tabs)) and ctx.valid('fc stage', a[3] == P(2))
            why = 'find_conflict(%s)' % ', '.join(tabs + [_flat(a[3])])
            # reads / writes / deps are three different captured values, deps is what remove_ids gets too
            r_, w_, d_ = src_of(a[4]), src_of(a[5]), _flat(a[6])
            ok = ok and len({r_, w_, d_}) == 3 and _flat(rm[0].args[2]) == d_ and ctx.valid('rm stage', rm[0].args[1] == P(2)) and _flat(rm[0].args[0]) == 'fld(deref(p1),0)'
            v = o.value
            ok = ok and isinstance(v, Agg) and len(v.fields) == 2 and ctx.valid('pair stage', to_term(v.fields[0]) == P(2)) and ctx.valid('pair verdict', to_term(v.fields[1]) == fc[0].result)
        ctx.ob(key, 'each scanned stage: verdict = find_conflict(ids, reads, writes, stage, new reads, new writes, pending deps); then the stage\'s ids are crossed off the pending deps; yields (stage, verdict)', ok, why)
    # ---- closure 1: which verdicts make the stage acceptable
    outs = ctx.run(c_find)
    rets = returns(outs)
    ok = len(outs) == len(rets) == 4
    seen = set()
    why = str([(o.kind, [(_flat(w), k) for w, k in o.st.decisions]) for o in outs])
    verdict = 'disc(fld(deref(p2),1))'
    for o in rets:
        d = [(_flat(w), k) for w, k in o.st.decisions]
        cs = sig(o)
        if not d or d[0][0] != verdict:
            ok = False
            break
        k = d[0][1]
        if k == M.VARIANT_IDX['None'] and len(d) == 1:
            good = not cs and isinstance(o.value, Cst) and o.value.text == 'true'
            seen.add('none')
        elif k == M.VARIANT_IDX['Multiple'] and len(d) == 1:
            good = not cs and isinstance(o.value, Cst) and o.value.text == 'false'
            seen.add('multiple')
        elif k == M.VARIANT_IDX['Single'] and len(d) == 2:
            ln = [e for e in cs if re.search(r'^ArrayVec::<.*>::len$', e.callee)]
            ib = [e for e in cs if re.search(r'StagesBuilder::<.*>::improves_balance$', e.callee)]
            idx = [e for e in cs if re.search(r' as Index<usize>>::index$', e.callee)]
            good = len(ln) == 1 and len(idx) == 2 and len(cs) == 3 + len(ib)
            if good:
                g = 'fld(mk_as_Single_1(fld(deref(p2),1)),0)'
                st_ = 'fld(deref(p2),0)'
                base = _flat(idx[0].args[0])
                via_stages = base == 'ref(fld(deref(fld(deref(p1),0)),%d))' % i_st and _flat(idx[1].args[0]) == 'ref(fld(deref(%s),%d))' % (idx[0].result, i_groups)
                via_ids = base == 'ref(fld(deref(fld(deref(p1),0)),%d))' % i_ids and _flat(idx[1].args[0]) in ('ref(deref(%s))' % idx[0].result, str(idx[0].result))
                good = (via_stages or via_ids) and _flat(idx[0].args[1]) == st_ and _flat(idx[1].args[1]) == g and ctx.valid('len of slot', ln[0].args[0] == idx[1].result)
                cmp_ = _cst_text(d[1][0])
                good = good and cmp_.startswith('disc(mk_op_Lt_2(%s,mk_op_Sub_2(<' % ln[0].result) and 'MAX_SYSTEMS_PER_GROUP' in cmp_ and cmp_.endswith(',<1_usize>)))')
                if d[1][1] == 0:
                    good = good and not ib and isinstance(o.value, Cst) and o.value.text == 'false'
                    seen.add('single-full')
                else:
                    good = good and len(ib) == 1 and _flat(ib[0].args[0]) == 'fld(deref(p1),0)' and _flat(ib[0].args[1]) == st_ and _flat(ib[0].args[2]) == g \
                        and ctx.valid('accept = improves_balance', to_term(o.value) == ib[0].result)
                    seen.add('single-room')
        else:
            good = False
        if not good:
            ok = False
            why = show(o)[:300] + ' | ' + _cst_text(str(d))[:200]
            break
    ctx.ob(key, 'a scanned stage is taken iff its verdict is None, or Single(g) with len(group g) < MAX_SYSTEMS_PER_GROUP - 1 and improves_balance(stage, g, time); never for Multiple - nothing else is consulted',
           ok and seen == {'none', 'multiple', 'single-full', 'single-room'}, '' if ok and len(seen) == 4 else why)
    # ---- closure 2: verdict -> target
    outs = ctx.run(c_tgt)
    rets = returns(outs)
    ok = len(rets) == 2 and all(o.kind in ('return', 'diverge') for o in outs)
    seen = set()
    for o in rets:
        d = [(_flat(w), k) for w, k in o.st.decisions]
        v = o.value
        if len(d) == 1 and d[0][0] == 'disc(fld(p2,1))' and isinstance(v, Agg) and not sig(o):
            if d[0][1] == M.VARIANT_IDX['None'] and v.variant == 'Stage' and len(v.fields) == 1 and _flat(to_term(v.fields[0])) == 'fld(p2,0)':
                seen.add('stage')
            elif d[0][1] == M.VARIANT_IDX['Single'] and v.variant == 'Group' and len(v.fields) == 2 and _flat(to_term(v.fields[0])) == 'fld(p2,0)' \
                    and _flat(to_term(v.fields[1])) == 'fld(mk_as_Single_1(fld(p2,1)),0)':
                seen.add('group')
    ctx.ob(key, 'the stage found is turned into Stage(that stage) for verdict None and Group(that stage, g) for Single(g)', ok and seen == {'stage', 'group'}, str([show(o)[:200] for o in outs]))


SPECS['C03'] = SPECS['C03'] + [('stage search range', spec_insertion_target)]
SPECS['C03'] = SPECS['C03'] + [('per-stage steps of the search', spec_insertion_closures)]
SPECS['C10'] = SPECS.get('C10', []) + [('per-stage steps of the search', spec_insertion_closures)]
SPECS['C18'] = SPECS['C18'] + [('per-stage steps of the search (capacity guard)', spec_insertion_closures)]


# ================================================================================================
# trait default methods and remaining small forwarders

def by_name(ctx, name, kind='default'):
    l = [f for f in ctx.fns(kind) if f.name == name]
    if len(l) != 1:
        raise M.Unsupported('%d functions named %s' % (len(l), name))
    return l[0]


def spec_system_defaults(ctx):
    key = 'system-defaults'
    o = straight(ctx, key, by_name(ctx, 'system::System::setup'), 'System::setup (default)')
    if o:
        cs = match_calls(ctx, key, 'System::setup (default)', o, [r"^<Self as (system::)?System<'_>>::accessor$", r"SystemData as (system::)?DynamicSystemData<'_>>::setup$"])
        if cs:
            ok = ctx.valid('s1', cs[0].args[0] == P(1)) and ctx.valid('s2', cs[1].args[1] == P(2))
            ctx.ob(key, 'System::setup (default) sets up the system data for this system\'s accessor on the world passed in', ok)
    outs = ctx.run(by_name(ctx, 'system::System::accessor'))
    rets = returns(outs)
    ok = len(rets) == 1 and isinstance(rets[0].value, Agg) and rets[0].value.variant == 'Owned' and [bool(re.search(r'Accessor>::try_new$', e.callee)) for e in sig(rets[0])][:1] == [True]
    ctx.ob(key, 'System::accessor (default) = Owned(Accessor::try_new().expect(..))', ok, str([show(x)[:160] for x in outs]))
    for nm in ('system::System::dispose', 'RunNow::dispose'):
        o = straight(ctx, key, by_name(ctx, nm), nm)
        if o:
            ctx.ob(key, '%s (default) does nothing' % nm, not sig(o), show(o)[:200])
    o = straight(ctx, key, by_name(ctx, 'system::System::running_time'), 'running_time')
    if o:
        ctx.ob(key, 'System::running_time (default) is Average', 'Average' in repr(o.value), repr(o.value))
    outs = ctx.run(ctx.one(r'Deref for AccessorCow', 'deref'))
    rets = returns(outs)
    ok = len(rets) == 2 and len(outs) == 2
    for o in rets:
        k = [kk for w, kk in o.st.decisions]
        v = o.value
        if k and k[0] == 0:
            ok = ok and ctx.valid('cow ref', to_term(v) == M.f_fld(M.mk_fn('as_Ref', 1)(M.f_deref(P(1))), 0))
        else:
            ok = ok and isinstance(v, Ref) and 'Owned' in repr(v.place)
    ctx.ob(key, 'AccessorCow::deref: Ref(r) -> r, Owned(o) -> &o', ok, str([repr(o.value) for o in rets]))


def spec_builder_small(ctx):
    key = 'builder-small'
    i_tp = fidx('src/dispatch/builder.rs', 'DispatcherBuilder', 'thread_pool')
    o = straight(ctx, key, ctx.one(BUILDER, 'with_thread_local'), 'with_thread_local')
    if o:
        match_calls(ctx, key, 'with_thread_local', o, [r'DispatcherBuilder::<.*>::add_thread_local::<T>$'])
    o = straight(ctx, key, ctx.one(BUILDER, 'with_pool'), 'with_pool')
    if o:
        match_calls(ctx, key, 'with_pool', o, [r'DispatcherBuilder::<.*>::add_pool$'])
    outs = ctx.run(ctx.one(BUILDER, 'add_pool'))
    rets = returns(outs)
    ok = len(rets) == 1
    if ok:
        o = rets[0]
        cs = sig(o, noise=r'^drop$')
        wr = [e for e in cs if re.search(r'RwLock::<.*>::write$', e.callee)]
        dm = [e for e in cs if re.search(r'RwLockWriteGuard<.*> as DerefMut>::deref_mut$', e.callee)]
        dr = [e for e in cs if re.search(r'^<Arc<std::sync::RwLock<.*>> as Deref>::deref$', e.callee)]
        ok = len(wr) == 1 and len(dm) == 1 and len(dr) == 1 and ctx.valid('ap1', dr[0].args[0] == self_field(i_tp)) and ctx.valid('ap2', wr[0].args[0] == dr[0].result)
        v = final_heap(o, M.f_deref(dm[0].result), []) if dm else None
        ok = ok and isinstance(v, Agg) and v.variant == 'Some' and ctx.valid('ap3', to_term(v.fields[0]) == P(2))
    ctx.ob(key, 'add_pool stores Some(the given pool) through the write lock of this builder\'s shared pool handle (also seen by batches added before)', ok, str([show(x)[:200] for x in outs][:2]))
    o = straight(ctx, key, ctx.one(WORLD, 'try_fetch_internal'), 'try_fetch_internal')
    if o:
        cs = match_calls(ctx, key, 'try_fetch_internal', o, [r'AHashMap::<.*>::get::<(world::)?ResourceId>$'])
        if cs:
            ctx.ob(key, 'try_fetch_internal is a plain lookup in this world', ctx.valid('tfi', cs[0].args[0] == self_field(fidx('src/world/mod.rs', 'World', 'resources'))) and ctx.valid('tfi2', to_term(o.value) == cs[0].result))


SPECS['C06'] = SPECS['C06'] + [('trait default methods', spec_system_defaults)]
SPECS['C13'] = SPECS['C13'] + [('trait default methods', spec_system_defaults), ('setup handlers and leaf setups', spec_c06_leaves), ('AsyncDispatcher::setup', spec_async_setup)]
SPECS['C11'] = SPECS['C11'] + [('pool setters', spec_builder_small)]
SPECS['C12'] = SPECS['C12'] + [('with_thread_local', spec_builder_small)]
SPECS['C08'] = SPECS['C08'] + [('try_fetch_internal', spec_builder_small)]

# ================================================================================================
# functions of the anchored files that no specification looked at (found by an audit of the dump against the
# functions every property's E2 part executes): loops of Stage, the async dispatcher, small forwarders

NOISE2 = r"as Deref(Mut)?>::deref(_mut)?$|core::fmt::|Arguments::<|::type_name::<|^drop$|tynm::|eprint"   # like NOISE but Borrow::borrow is an event


def nested_loop_ok(ctx, fn, outer_src, body_pat, world, min_paths=4):
    """every returning path is  into_iter(outer_src) (next into_iter(item) (next BODY(item', world))* next)* next
    - each inner item gets exactly one BODY call, in iteration order, nothing else happens. -> (ok, why)"""
    outs = ctx.run(fn)
    rets = returns(outs)
    if len(rets) < min_paths or not all(o.kind in ('return', 'bound') for o in outs):
        return False, '%d returning paths, kinds %s' % (len(rets), sorted(set(o.kind + ':' + o.detail[:20] for o in outs)))
    for o in rets:
        cs = sig(o)
        toks = ''
        for e in cs:
            if re.search(r'as IntoIterator>::into_iter$', e.callee):
                toks += 'I'
            elif re.search(r'as Iterator>::next$', e.callee):
                toks += 'N'
            elif re.search(body_pat, e.callee):
                toks += 'B'
            else:
                toks += '?'
        if not re.match(r'^I(NI(NB)*N)*N$', toks):
            return False, 'call sequence %s: %s' % (toks, [e.callee[:50] for e in cs][:12])
        if _flat(cs[0].args[0]) != outer_src:
            return False, 'outer loop runs over %s' % _flat(cs[0].args[0])
        last_outer = last_inner = None
        outer_recv = inner_recv = None
        depth = 0
        for i, (t, e) in enumerate(zip(toks, cs)):
            if i == 0:
                continue
            if t == 'N':
                nxt = toks[i + 1] if i + 1 < len(toks) else ''
                inner_pos = depth == 1
                if inner_pos:
                    if inner_recv is None:
                        inner_recv = _flat(e.args[0])
                    if _flat(e.args[0]) != inner_recv:
                        return False, 'inner next on another iterator'
                    last_inner = e
                    if nxt != 'B':
                        depth = 0        # inner loop finished
                else:
                    if outer_recv is None:
                        outer_recv = _flat(e.args[0])
                    if _flat(e.args[0]) != outer_recv:
                        return False, 'outer next on another iterator'
                    last_outer = e
            elif t == 'I':
                if last_outer is None or not term_contains(e.args[0], last_outer.result):
                    return False, 'inner loop does not run over the item the outer loop yielded'
                depth = 1
                inner_recv = None
            elif t == 'B':
                if last_inner is None or not term_contains(e.args[0], last_inner.result) or len(e.args) != 2 or not ctx.valid('loop body world', e.args[1] == world):
                    return False, 'body call %s(%s)' % (e.callee[:40], [_flat(a)[:50] for a in e.args])
    return True, ''


def flatten_for_each_ok(ctx, fn, outer_src, body_pat, world):
    """`outer.iter_mut()/into_iter().flatten().for_each(|item| BODY(item, world))`: std's Flatten yields the items of
    the inner collections in order, for_each calls the closure once per item - the nested walk in one expression."""
    outs = ctx.run(fn)
    if len(outs) != 1 or outs[0].kind != 'return':
        return False, 'not a single path'
    o = outs[0]
    cs = [e for e in o.trace if e.callee != 'drop' and not re.search(r'core::fmt::', e.callee)]
    it = [e for e in cs if re.search(r'::iter_mut$|as IntoIterator>::into_iter$', e.callee)]
    fl = [e for e in cs if re.search(r' as Iterator>::flatten$', e.callee)]
    fe = [e for e in cs if re.search(r'^<std::iter::Flatten<.*> as Iterator>::for_each::<', e.callee)]
    dm = [e for e in cs if re.search(r' as Deref(Mut)?>::deref(_mut)?$', e.callee)]
    if not (len(it) == 1 and len(fl) == 1 and len(fe) == 1 and len(cs) == 3 + len(dm)):
        return False, str([e.callee[:50] for e in cs])
    src = it[0].args[0]
    for d in dm:
        if d.result is not None and src.eq(d.result):
            src = d.args[0]
    if _flat(src) != outer_src or not fl[0].args[0].eq(it[0].result) or not fe[0].args[0].eq(fl[0].result):
        return False, 'chain does not start at %s' % outer_src
    clv = fe[0].argvals[1]
    loc = clv.kind[len('closure@'):] if isinstance(clv, Agg) and clv.kind.startswith('closure@') else None
    cl = [f for f in ctx.fns() if f.params and loc and loc in f.params[0][1] and '{closure#' in f.name]
    if len(cl) != 1 or len(clv.fields) != 1 or not ctx.valid('closure captures the world', to_term(clv.fields[0]) == world):
        return False, 'closure of for_each not found or captures something else than the world'
    couts = ctx.run(cl[0])
    if len(couts) != 1 or couts[0].kind != 'return':
        return False, 'closure body is not a single path'
    ccs = sig(couts[0])
    ok = len(ccs) == 1 and re.search(body_pat, ccs[0].callee) and len(ccs[0].args) == 2 and term_contains(ccs[0].args[0], P(2)) and _flat(ccs[0].args[1]) == 'fld(deref(p1),0)'
    return bool(ok), '' if ok else str([e.callee[:50] for e in ccs])


def spec_stage_loops(ctx):
    """Stage::setup / dispose / execute_seq: every system of every group exactly once, in table order (C13, C04, C05)"""
    ST = r"^src/dispatch/stage.rs: impl Stage<'_>"
    i_g = fidx('src/dispatch/stage.rs', 'Stage', 'groups')
    for nm, src, body, txt in (('setup', 'ref(fld(deref(p1),%d))' % i_g, r"RunNow<'_>>::setup$", 'sets up'),
                               ('dispose', 'fld(p1,%d)' % i_g, r"RunNow<'_>>::dispose$", 'disposes of'),
                               ('execute_seq', 'ref(fld(deref(p1),%d))' % i_g, r"RunNow<'_>>::run_now$", 'runs')):
        f = ctx.one(ST, nm)
        ok, why = nested_loop_ok(ctx, f, src, body, P(2))
        if not ok:
            ok2, why2 = flatten_for_each_ok(ctx, f, src, body, P(2))      # the same walk spelt groups.iter_mut().flatten().for_each(|s| ..)
            if ok2:
                ok, why = True, ''
        ctx.ob('stage-' + nm, 'Stage::%s %s every system of every group exactly once, in group order then system order, on the world passed in; nothing else' % (nm, txt), ok, why)


def spec_async_dispatch(ctx):
    """AsyncDispatcher::dispatch: the spawned job executes every stage once, in order, on the dispatcher's world and
    then hands the state back (C04 for the async path; which stage runs what is the planner's business)."""
    key = 'async-dispatch'
    A = 'async_dispatcher.rs'
    i_data = fidx('src/dispatch/async_dispatcher.rs', 'AsyncDispatcher', 'data')
    i_tp = fidx('src/dispatch/async_dispatcher.rs', 'AsyncDispatcher', 'thread_pool')
    i_w = fidx('src/dispatch/async_dispatcher.rs', 'Inner', 'world')
    i_st = fidx('src/dispatch/async_dispatcher.rs', 'Inner', 'stages')
    fs = [f for f in ctx.fns() if f.short == 'dispatch' and A in (f.impl_header + f.name) and '{closure' not in f.name]
    cl = [f for f in ctx.fns() if f.name.endswith('::dispatch::{closure#0}') and A in f.name]
    if len(fs) != 1 or len(cl) != 1:
        raise M.Unsupported('AsyncDispatcher::dispatch / its job closure not found')
    o = straight(ctx, key, fs[0], 'AsyncDispatcher::dispatch')
    if o:
        cs = sig(o)
        snd = [e for e in cs if re.search(r'Data::<.*>::sender$', e.callee)]
        sp = [e for e in cs if re.search(r'ThreadPool::spawn::<', e.callee)]
        ok = len(snd) == 1 and len(sp) == 1 and cs.index(snd[0]) < cs.index(sp[0]) and _flat(snd[0].args[0]) == 'ref(fld(deref(p1),%d))' % i_data \
            and not [e for e in cs if re.search(r'Stage::<|RunNow', e.callee)]
        if ok:
            clv = sp[0].argvals[1]
            ok = isinstance(clv, Agg) and len(clv.fields) == 2 and all(term_contains(to_term(x), snd[0].result) for x in clv.fields)
            # the pool the job is spawned on is the one behind this dispatcher's handle
            rd = [e for e in cs if re.search(r'RwLock::<.*>::read$', e.callee)]
            ok = ok and len(rd) == 1 and any(re.search(r' as Deref>::deref$', e.callee) and _flat(e.args[0]) == 'ref(fld(deref(p1),%d))' % i_tp and rd[0].args[0].eq(e.result) for e in o.trace)
        ctx.ob(key, 'dispatch: takes (sender, state) from Data::sender (which waits for a running dispatch) and spawns ONE job holding both on this dispatcher\'s pool; runs nothing on the caller', ok, str([e.callee[:60] for e in cs]))
    # the job
    outs = ctx.run(cl[0])
    rets = returns(outs)
    ok = len(rets) >= 3 and all(x.kind in ('return', 'bound') for x in outs)
    why = '%d returning paths' % len(rets)
    for o in rets:
        cs = sig(o, NOISE2)
        good = len(cs) >= 4 and re.search(r'as Borrow<(world::)?World>>::borrow$', cs[0].callee) and re.search(r'as IntoIterator>::into_iter$', cs[1].callee) \
            and re.search(r'mpsc::Sender::<.*>::send$', cs[-1].callee)
        if good:
            state = None
            m = re.match(r'^ref\(fld\((.*),%d\)\)$' % i_w, _flat(cs[0].args[0]))
            good = m is not None and _flat(cs[1].args[0]) == 'ref(fld(%s,%d))' % (m.group(1), i_st)
            world = cs[0].result
            body = cs[2:-1]
            k = 0
            while good and k < len(body):
                if not re.search(r'as Iterator>::next$', body[k].callee):
                    good = False
                elif k + 1 < len(body):
                    b = body[k + 1]
                    good = re.search(r'^Stage::<.*>::execute$', b.callee) is not None and term_contains(b.args[0], body[k].result) and ctx.valid('job world', b.args[1] == world)
                k += 2
            good = good and len(body) % 2 == 1
            # what is sent back is the captured state itself
            good = good and m is not None and _flat(cs[-1].args[1]).replace('local__1', 'p1') in (m.group(1).replace('local__1', 'p1'),)
        if not good:
            ok = False
            why = str([e.callee[:60] for e in cs]) + ' sent=' + (_flat(cs[-1].args[1]) if cs and len(cs[-1].args) > 1 else '')
            break
    ctx.ob(key, 'the spawned job: world = state.world.borrow(); every stage of state.stages is executed exactly once, in order; then the state is sent back - on every path', ok, '' if ok else why)


def spec_async_data(ctx):
    """Data::inner (what wait/setup/world block on) and Data::sender (what dispatch starts with)"""
    key = 'async-state'
    D = r'^src/dispatch/async_dispatcher.rs: impl<R> Data<R>'
    outs = ctx.run(ctx.one(D, 'inner'))
    rets = returns(outs)
    ok = len(outs) == len(rets) == 2
    seen = set()
    for o in rets:
        cs = sig(o)
        d = [(_flat(w), k) for w, k in o.st.decisions]
        if d and d[0] == ('disc(deref(p1))', M.VARIANT_IDX.get('Inner', 0)) and not cs:
            seen.add('inner')
        elif d and d[0][0] == 'disc(deref(p1))' and len(cs) == 3 and re.search(r'mpsc::Receiver::<.*>::recv$', cs[0].callee) and re.search(r'Result::<.*>::(expect|unwrap)$', cs[1].callee) \
                and re.search(r'Data::<R>::inner$', cs[2].callee) and cs[1].args[0].eq(cs[0].result) and _flat(cs[2].args[0]) == 'p1' and ctx.valid('inner r', to_term(o.value) == cs[2].result):
            stored = final_heap(o, M.f_deref(P(1)), []) if False else None
            seen.add('rx')
    ctx.ob(key, 'Data::inner: returns the state when it is here; otherwise BLOCKS on Receiver::recv (a dropped sender is a panic), stores what arrived and returns it', ok and seen == {'inner', 'rx'}, str([show(o)[:200] for o in outs]))
    outs = ctx.run(ctx.one(D, 'sender'))
    rets = returns(outs)
    ok = len(rets) == 1
    if ok:
        o = rets[0]
        cs = sig(o)
        ok = len(cs) == 3 and re.search(r'Data::<R>::inner$', cs[0].callee) and re.search(r'mpsc::channel::<', cs[1].callee) and re.search(r'mem::replace::<Data<R>>$', cs[2].callee) \
            and _flat(cs[2].args[0]) == 'p1' and 'Rx' in _flat(cs[2].args[1]) and term_contains(cs[2].args[1], cs[1].result)
        v = o.value
        ok = ok and isinstance(v, Agg) and len(v.fields) == 2 and term_contains(to_term(v.fields[0]), cs[1].result) and term_contains(to_term(v.fields[1]), cs[2].result)
    ctx.ob(key, 'Data::sender: first waits for the state (inner), then leaves the receiving end of a fresh channel in its place and returns (sending end, state)', ok, str([show(o)[:200] for o in outs]))


def spec_small_forwards(ctx):
    """One-call forwarders nothing else looks at."""
    # C10: Dispatcher::max_threads
    key = 'max-threads-forward'
    D = r"^src/dispatch/dispatcher.rs: impl<'a> Dispatcher<'a, '_>"
    i_in = fidx('src/dispatch/dispatcher.rs', 'Dispatcher', 'inner')
    fs = ctx.find(D, 'max_threads', optional=True)
    if len(fs) == 1:
        o = straight(ctx, key, fs[0], 'Dispatcher::max_threads')
        if o:
            cs = match_calls(ctx, key, 'Dispatcher::max_threads', o, [r'^SendDispatcher::<.*>::max_threads$'])
            if cs:
                ctx.ob(key, 'Dispatcher::max_threads is the inner dispatcher\'s value, unchanged', _flat(cs[0].args[0]) == 'ref(fld(deref(p1),%d))' % i_in and ctx.valid('mt', to_term(o.value) == cs[0].result))
    else:
        raise M.Unsupported('Dispatcher::max_threads not found')


def spec_parseq_wrapper(ctx):
    """ParSeq::{new, setup, dispatch} and its RunNow impl hand the tree and the pool through unchanged (C16)"""
    key = 'parseq-wrapper'
    i_run, i_pool = fidx('src/dispatch/par_seq.rs', 'ParSeq', 'run'), fidx('src/dispatch/par_seq.rs', 'ParSeq', 'pool')
    PS = [f for f in ctx.fns() if re.search(r'par_seq.rs: impl<P, T> (RunNow<\'_> for )?ParSeq<P, T>', f.impl_header or '')]
    by = {}
    for f in PS:
        by.setdefault(f.short, []).append(f)
    ctx.ob(key, 'ParSeq has new / setup / dispatch and RunNow::{run_now, setup}', sorted((k, len(v)) for k, v in by.items()) == [('dispatch', 1), ('new', 1), ('run_now', 1), ('setup', 2)], str(sorted((k, len(v)) for k, v in by.items())))
    for nm, fl in by.items():
        for f in fl:
            o = straight(ctx, key, f, 'ParSeq::' + nm)
            if not o:
                continue
            cs = sig(o, NOISE2)
            if nm == 'new':
                v = o.value
                ok = isinstance(v, Agg) and not cs and ctx.valid('ps run', to_term(v.fields[i_run]) == P(1)) and ctx.valid('ps pool', to_term(v.fields[i_pool]) == P(2))
                ctx.ob(key, 'ParSeq::new stores the tree and the pool', ok, repr(v))
            elif nm == 'setup':
                ok = len(cs) == 1 and re.search(r"RunWithPool<'_>>::setup$", cs[0].callee) and _flat(cs[0].args[0]) == 'ref(fld(deref(p1),%d))' % i_run and ctx.valid('ps w', cs[0].args[1] == P(2))
                ctx.ob(key, 'ParSeq setup = setup of the tree on the world passed in', ok, str([e.callee[:60] for e in cs]))
            else:
                bor = [e for e in cs if re.search(r'as Borrow<(rayon::)?ThreadPool>>::borrow$', e.callee)]
                run = [e for e in cs if re.search(r"RunWithPool<'_>>::run$", e.callee)]
                ok = len(cs) == 2 and len(bor) == 1 and len(run) == 1 and _flat(bor[0].args[0]) == 'ref(fld(deref(p1),%d))' % i_pool and _flat(run[0].args[0]) == 'ref(fld(deref(p1),%d))' % i_run \
                    and ctx.valid('ps rw', run[0].args[1] == P(2)) and run[0].args[2].eq(bor[0].result)
                ctx.ob(key, 'ParSeq %s = run of the tree on the world passed in with the pool it was given' % nm, ok, str([e.callee[:60] for e in cs]))


def spec_empty_accessors(ctx):
    """Accessor for () and PhantomData<T>: declare nothing (C06: what the default accessor of a system declares comes
    from StaticAccessor; these two are for systems without data)"""
    key = 'accessor-empty'
    fs = [f for f in ctx.fns() if re.search(r'^src/system.rs: impl(<T: \?Sized>)? Accessor for (\(\)|PhantomData<T>)', f.impl_header or '') and f.short in ('reads', 'writes')]
    ctx.ob(key, 'Accessor for () and PhantomData<T>: reads and writes found', len(fs) == 4, str([f.name[-40:] for f in fs]))
    for f in fs:
        seq_of_ids(ctx, key, 'Accessor ' + re.sub(r'^.*for ', '', f.impl_header)[:16] + '::' + f.short, f, [])


def spec_build_async(ctx):
    """DispatcherBuilder::build_async: same hand-over as build (C11 shared pool, C12 thread-local list)"""
    key = 'build-async'
    fs = [f for f in ctx.fns() if f.short == 'build_async' and 'builder.rs' in (f.impl_header + f.name)]
    if len(fs) != 1:
        raise M.Unsupported('build_async not found')
    o = straight(ctx, key, fs[0], 'build_async')
    if o:
        cs = sig(o)
        g = [e for e in cs if re.search(r'get_or_insert_with::<fn\(\) -> Arc<(rayon::)?ThreadPool> \{DispatcherBuilder::<.*>::create_thread_pool\}>$', e.callee)]
        na = [e for e in cs if re.search(r'^new_async::<R>$', e.callee)]
        sbb = [e for e in cs if re.search(r'^StagesBuilder::<.*>::build$', e.callee)]
        i_sb = fidx('src/dispatch/builder.rs', 'DispatcherBuilder', 'stages_builder')
        i_tl = fidx('src/dispatch/builder.rs', 'DispatcherBuilder', 'thread_local')
        i_tp = fidx('src/dispatch/builder.rs', 'DispatcherBuilder', 'thread_pool')
        ok = len(g) == 1 and len(na) == 1 and len(sbb) == 1 and ctx.valid('ba1', sbb[0].args[0] == M.f_fld(P(1), i_sb)) and ctx.valid('ba0', na[0].args[0] == P(2)) and ctx.valid('ba2', na[0].args[1] == sbb[0].result) \
            and ctx.valid('ba3', na[0].args[2] == M.f_fld(P(1), i_tl)) and ctx.valid('ba4', na[0].args[3] == M.f_fld(P(1), i_tp)) and ctx.valid('ba5', to_term(o.value) == na[0].result)
        ctx.ob(key, 'build_async: keeps a user pool (get_or_insert_with), passes the world, the planned stages, the thread-local list and the shared pool handle to new_async', ok, str([e.callee[:60] for e in cs]))
    na = [f for f in ctx.fns() if f.name == 'new_async' or f.name.endswith('::new_async')]
    if len(na) == 1:
        o = straight(ctx, key, na[0], 'new_async')
        if o:
            v = o.value
            A_ = 'src/dispatch/async_dispatcher.rs'
            ok = isinstance(v, Agg) and not sig(o)
            if ok:
                data = v.fields[fidx(A_, 'AsyncDispatcher', 'data')]
                ok = isinstance(data, Agg) and data.variant == 'Inner' and isinstance(data.fields[0], Agg)
                if ok:
                    inner = data.fields[0]
                    ok = ctx.valid('na w', to_term(inner.fields[fidx(A_, 'Inner', 'world')]) == P(1)) and ctx.valid('na s', to_term(inner.fields[fidx(A_, 'Inner', 'stages')]) == P(2)) \
                        and ctx.valid('na tl', to_term(v.fields[fidx(A_, 'AsyncDispatcher', 'thread_local')]) == P(3)) and ctx.valid('na tp', to_term(v.fields[fidx(A_, 'AsyncDispatcher', 'thread_pool')]) == P(4))
            ctx.ob(key, 'new_async stores world, stages, thread-local list and pool handle unchanged; the state starts out "here"', ok, repr(v)[:300])
    else:
        raise M.Unsupported('new_async not found')


SPECS['C13'] = SPECS['C13'] + [('Stage::setup / dispose loops', spec_stage_loops), ('async state hand-over', spec_async_data)]
SPECS['C04'] = SPECS['C04'] + [('Stage loops (execute_seq)', spec_stage_loops), ('async dispatch job', spec_async_dispatch)]
SPECS['C05'] = SPECS['C05'] + [('Stage loops (execute_seq)', spec_stage_loops)]
SPECS['C12'] = SPECS['C12'] + [('async state hand-over', spec_async_data), ('build_async', spec_build_async)]
SPECS['C11'] = SPECS['C11'] + [('build_async', spec_build_async), ('async dispatch job runs on the shared pool', spec_async_dispatch)]
SPECS['C10'] = SPECS['C10'] + [('Dispatcher::max_threads', spec_small_forwards)]
SPECS['C16'] = SPECS['C16'] + [('ParSeq wrapper', spec_parseq_wrapper)]
SPECS['C06'] = SPECS['C06'] + [('Accessor for () / PhantomData', spec_empty_accessors)]

def spec_async_accessors(ctx):
    """C15: every accessor of the async dispatcher first takes the state back (blocking), running() polls without blocking,
    and the poll answers "here" only when the state has really arrived."""
    key = 'async-accessors'
    A_ = 'src/dispatch/async_dispatcher.rs'
    i_data = fidx(A_, 'AsyncDispatcher', 'data')
    i_w = fidx(A_, 'Inner', 'world')
    AD = [f for f in ctx.fns() if 'async_dispatcher.rs' in (f.impl_header or '') and 'AsyncDispatcher<' in (f.impl_header or '') and '{closure' not in f.name]
    by = {f.short: f for f in AD}
    want = {'wait_without_tl', 'world', 'world_mut', 'res', 'mut_res', 'running', 'wait', 'setup', 'dispatch'}
    ctx.ob(key, 'AsyncDispatcher has exactly the public entry points %s' % sorted(want), set(by) == want, str(sorted(by)))
    data_ref = 'ref(fld(deref(p1),%d))' % i_data
    for nm in ('wait_without_tl', 'world', 'world_mut', 'mut_res'):
        if nm not in by:
            continue
        o = straight(ctx, key, by[nm], 'AsyncDispatcher::' + nm)
        if not o:
            continue
        cs = sig(o)
        ok = len(cs) == 1 and re.search(r'Data::<R>::inner$', cs[0].callee) and _flat(cs[0].args[0]) == data_ref
        if ok and nm != 'wait_without_tl':
            v = o.value
            ok = isinstance(v, Ref) and _flat(M.place_term(v.place)) == 'fld(deref(%s),%d)' % (cs[0].result, i_w)
        ctx.ob(key, 'AsyncDispatcher::%s: blocks until the state is back (Data::inner) and %s; runs nothing' % (nm, 'returns' if nm == 'wait_without_tl' else 'hands out the world of that state'), ok, show(o)[:300])
    if 'res' in by:
        o = straight(ctx, key, by['res'], 'AsyncDispatcher::res')
        if o:
            cs = sig(o)
            ctx.ob(key, 'AsyncDispatcher::res is world()', len(cs) == 1 and re.search(r'AsyncDispatcher::<.*>::world$', cs[0].callee) and _flat(cs[0].args[0]) == 'p1' and ctx.valid('res', to_term(o.value) == cs[0].result), show(o)[:200])
    if 'running' in by:
        outs = ctx.run(by['running'])
        ok = len(outs) >= 1 and all(o.kind == 'return' for o in outs)
        for o in outs:
            cs = sig(o)
            nb = [e for e in cs if re.search(r'Data::<R>::inner_noblock$', e.callee)]
            isn = [e for e in cs if re.search(r'^Option::<.*>::is_none$', e.callee)]
            if not (len(nb) == 1 and _flat(nb[0].args[0]) == data_ref and not [e for e in cs if re.search(r'Data::<R>::inner$|recv', e.callee)]):
                ok = False
            elif isn:
                # running() == poll.is_none()
                ok = ok and len(cs) == 2 and 'ref' in _flat(isn[0].args[0]) and ctx.valid('running', to_term(o.value) == isn[0].result)
            else:
                # spelt as a match on the poll result
                d = [(_flat(w), k) for w, k in o.st.decisions]
                ok = ok and len(cs) == 1 and len(d) == 1 and d[0][0] == 'disc(%s)' % nb[0].result and isinstance(o.value, Cst) and o.value.text == ('true' if d[0][1] == M.VARIANT_IDX['None'] else 'false')
        ctx.ob(key, 'running(): polls without blocking (inner_noblock, never inner / recv) and answers true exactly when the state is not here', ok, str([show(o)[:200] for o in outs]))
    # the poll
    D = r'^src/dispatch/async_dispatcher.rs: impl<R> Data<R>'
    f = ctx.one(D, 'inner_noblock')
    outs = ctx.run(f)
    rets = returns(outs)
    ok = len(outs) == len(rets) == 3
    seen = set()
    why = str([show(o)[:160] for o in outs])
    for o in rets:
        cs = sig(o)
        d = [(_flat(w), k) for w, k in o.st.decisions]
        if not cs:
            v = o.value
            if d == [('disc(deref(p1))', M.VARIANT_IDX.get('Inner', 0))] and isinstance(v, Agg) and v.variant == 'Some' and isinstance(v.fields[0], Ref) and 'Inner' in repr(v.fields[0].place):
                seen.add('here')
            continue
        pats = [r'mpsc::Receiver::<.*>::try_recv$', r'^Result::<.*>::map::<Option<Inner<R>>, fn\(Inner<R>\) -> Option<Inner<R>> \{Option::<Inner<R>>::Some\}>$', r'^Result::<.*>::or_else::<.*\{closure@src/dispatch/async_dispatcher.rs', r'^Result::<.*>::expect$']
        good = len(cs) >= 4 and all(re.search(p_, e.callee) for p_, e in zip(pats, cs)) and _flat(cs[0].args[0]).startswith('ref(fld(mk_as_Rx_1(deref(p1))') \
            and cs[1].args[0].eq(cs[0].result) and cs[2].args[0].eq(cs[1].result) and cs[3].args[0].eq(cs[2].result) and not [e for e in cs if re.search(r'::recv$', e.callee)]
        if not good or len(d) != 2 or d[0][0] != 'disc(deref(p1))' or d[1][0] != 'disc(%s)' % cs[3].result:
            ok = False
            why = show(o)[:300]
            break
        if d[1][1] == M.VARIANT_IDX['None']:
            if len(cs) == 4 and isinstance(o.value, Agg) and o.value.variant == 'None':
                seen.add('not yet')
            else:
                ok = False
        else:
            stored = final_heap(o, M.f_deref(P(1)), [])
            rec = cs[4] if len(cs) == 5 else None
            if rec is not None and re.search(r'Data::<R>::inner_noblock$', rec.callee) and _flat(rec.args[0]) == 'p1' and ctx.valid('poll rec', to_term(o.value) == rec.result) \
                    and isinstance(stored, Agg) and stored.variant == 'Inner' and term_contains(to_term(stored.fields[0]), cs[3].result):
                seen.add('arrived')
            else:
                ok = False
                why = 'arrived path: ' + show(o)[:300] + ' stored=%r' % (stored,)
    ctx.ob(key, 'Data::inner_noblock: state here -> Some; otherwise ONE try_recv: arrived -> stored as Data::Inner, then Some; nothing yet -> None; sender gone -> panic (expect); never blocks', ok and seen == {'here', 'not yet', 'arrived'}, '' if ok and len(seen) == 3 else why + ' seen=%s' % sorted(seen))
    cl = [g for g in ctx.fns() if g.name.endswith('::inner_noblock::{closure#0}') and 'async_dispatcher' in g.name]
    if len(cl) == 1:
        outs = ctx.run(cl[0])
        res = set()
        for o in returns(outs):
            d = [(_flat(w), k) for w, k in o.st.decisions]
            v = o.value
            if len(d) == 1 and d[0][0] == 'disc(p2)' and isinstance(v, Agg):
                if d[0][1] == 0 and v.variant == 'Ok' and isinstance(v.fields[0], Agg) and v.fields[0].variant == 'None':
                    res.add('empty->Ok(None)')
                elif d[0][1] == 1 and v.variant == 'Err' and ctx.valid('err', to_term(v.fields[0]) == P(2)):
                    res.add('disconnected->Err')
        ctx.ob(key, 'the poll maps TryRecvError::Empty to "nothing yet" and keeps Disconnected an error', len(outs) == 2 and res == {'empty->Ok(None)', 'disconnected->Err'}, str([show(o)[:120] for o in outs]))
    else:
        ctx.ob(key, 'the poll maps TryRecvError::Empty to "nothing yet" and keeps Disconnected an error', False, 'closure of inner_noblock not found (%d)' % len(cl))


SPECS['C15'] = [('accessors and the poll', spec_async_accessors), ('state hand-over (inner / sender)', spec_async_data), ('dispatch and the spawned job', spec_async_dispatch),
                ('wait: thread-local systems on the caller, after the state is back', spec_async_wait), ('setup waits too', spec_async_setup), ('build_async', spec_build_async)]


# ---- the properties whose E2 part used to be a hand-picked list in props.py: the table above is the single source now
def _ensure(pid, *fns):
    have = [e[1] for e in SPECS.get(pid, [])]
    for title, fn in fns:
        if fn not in have:
            SPECS.setdefault(pid, []).append((title, fn))


# a batch is an ordinary system of its parent: how add_batch registers it and what it announces for it matters to every
# property about plans (seeds C13-x, C19-x sat in add_batch and were missed by checks that did not look at it)
for _p in ('C02', 'C03', 'C10', 'C12', 'C13', 'C18', 'C19'):
    _ensure(_p, ('add_batch registers the batch and announces the union', spec_add_batch), ('batch wrapper reports it', spec_batch_wrapper))
# the access tables are also what fetch_all_* (hence a parent builder) reads: add_barrier may only move the barrier
# (seeds C01-x, C07-x emptied the tables of the sealed stages)
for _p in ('C01', 'C05', 'C07', 'C19'):
    _ensure(_p, ('add_barrier only moves the barrier index', spec_add_barrier))
def _dispatch_clauses(name):
    """clauses of spec_forwarders about the dispatch entry points (not setup / dispose / conversion)"""
    return re.search(r'dispatch', name) is not None and re.search(r'::(setup|dispose)\b|try_into_sendable|RunNow', name) is None


# which of dispatch_par / dispatch_seq `dispatch` forwards to, and that each of them walks every stage once, is part of
# every property about what a dispatch does (seed C11-y: `SendDispatcher::dispatch` fell back to dispatch_seq on a busy worker)
for _p in ('C01', 'C02', 'C03', 'C05', 'C10', 'C11'):
    if spec_forwarders not in [e[1] for e in SPECS.get(_p, [])]:
        SPECS[_p] = SPECS[_p] + [('dispatch entry points forward to the parallel / sequential walk of all stages', spec_forwarders, _dispatch_clauses)]
_ensure('C09', ('fetch paths address the slot of the id they are given', spec_world_fetch))
_ensure('C01', ('Stage::execute / dispatch_par structure', spec_stage_exec))
_ensure('C03', ('commit part of insert', spec_insert))
_ensure('C05', ('Stage::execute / dispatch_par structure', spec_stage_exec))
_ensure('C19', ('DispatcherBuilder::add resolves names to ids', spec_add))


# ---- attachment by role (rounds 5-10 kept finding defects in a function whose specification existed but was not part of the
# check of the property the defect was written against): every property about plans gets every planner specification, every
# property about what a dispatch does gets the executor specifications, isolation / schedule independence also get the
# "declared access = what fetch borrows" specifications of the provided data types.
def _attach(pid, title, fn, clauses=None):
    if fn not in [e[1] for e in SPECS.get(pid, [])]:
        SPECS.setdefault(pid, []).append((title, fn) if clauses is None else (title, fn, clauses))


def _build_clauses(name):
    return re.search(r'StagesBuilder::build|^build:|new_dispatcher', name) is not None


_PLAN_PROPS = ('C01', 'C02', 'C03', 'C04', 'C05', 'C07', 'C10', 'C18', 'C19', 'C20')
for _p in _PLAN_PROPS:
    _attach(_p, 'commit part of insert', spec_insert)
    _attach(_p, 'stage search range', spec_insertion_target)
    _attach(_p, 'per-stage steps of the search', spec_insertion_closures)
    _attach(_p, 'add_barrier only moves the barrier index', spec_add_barrier)
    _attach(_p, 'add_batch registers the batch and announces the union', spec_add_batch)
    _attach(_p, 'batch wrapper reports it', spec_batch_wrapper)
    _attach(_p, 'DispatcherBuilder::add', spec_add)
    _attach(_p, 'build hands the accumulated plan over unchanged', spec_stage_exec, _build_clauses)
for _p in ('C01', 'C02', 'C03', 'C04', 'C05', 'C10', 'C11', 'C12', 'C13'):
    _attach(_p, 'dispatch entry points forward to the parallel / sequential walk of all stages', spec_forwarders, _dispatch_clauses)
    _attach(_p, 'Stage loops', spec_stage_loops)
for _p in ('C01', 'C05'):
    _attach(_p, 'declared access of the provided leaf data types', spec_c06_leaves)
    _attach(_p, 'declared access of tuples = concatenation of the members', spec_c06_tuples)
# the async dispatcher is a third way to dispatch the same plan: what a dispatch does (exactly once, thread-local systems on
# the caller after the rest, setup / dispose reach) also depends on its hand-over steps (eleventh seed round: an early return in
# `wait` was missed by C04 because only `spec_async_dispatch` was attached to it)
for _p in ('C04', 'C12', 'C13'):
    _attach(_p, 'async: accessors and the poll', spec_async_accessors)
    _attach(_p, 'async: state hand-over (inner / sender)', spec_async_data)
    _attach(_p, 'async: dispatch and the spawned job', spec_async_dispatch)
    _attach(_p, 'async: wait runs the thread-local systems on the caller, after the state is back', spec_async_wait)
    _attach(_p, 'async: setup waits too', spec_async_setup)
    _attach(_p, 'async: build_async', spec_build_async)


# ================================================================================================
# C18: the two queries users are told to use to find out whether a dependency may be named (`has_system`, `contains`):
# a registration sequence is well-formed iff every dependency names an earlier system - these answer from the same
# name map `add` resolves dependencies in, under the raw name (eleventh round: the audit listed them as executed by no specification)

def _through_local(o, e, i, want):
    """argument i of call e is `want`, directly or as a reference to the local that holds it"""
    if i < len(e.args) and term_contains(e.args[i], want):
        return True
    v = e.argvals[i] if i < len(e.argvals) else None
    if isinstance(v, Ref) and v.place.base[0] == 'L':
        v = o.st.store.get(v.place.key(), {}).get(v.place.path)
        return v is not None and not isinstance(v, Ref) and to_term(v).eq(want)
    return False


def spec_builder_queries(ctx):
    key = 'builder-queries'
    i_map = fidx('src/dispatch/builder.rs', 'DispatcherBuilder', 'map')
    for n in ('has_system', 'contains'):
        o = straight(ctx, key, ctx.one(BUILDER, n), 'DispatcherBuilder::%s' % n)
        if not o:
            continue
        cs = [e for e in sig(o, noise=r'^drop$') if not re.search(r'as Deref(Mut)?>::deref(_mut)?$', e.callee)]
        der = [e for e in sig(o, noise=r'^drop$') if re.search(r'as Deref(Mut)?>::deref(_mut)?$', e.callee)]
        ok = len(cs) == 1 and re.search(r'HashMap::<String, SystemId.*>::contains_key::<str>$', cs[0].callee) is not None  # matches AHashMap:: too
        ok2 = len(cs) == 2 and re.search(r'HashMap::<String, SystemId.*>::get::<str>$', cs[0].callee) is not None and \
            re.search(r'^Option::<&SystemId>::is_some$', cs[1].callee) is not None and _through_local(o, cs[1], 0, cs[0].result)
        ok = ok or ok2
        ctx.ob(key, '%s: one lookup (contains_key, or get + is_some) on a name map and nothing else' % n, ok, str([e.callee[:80] for e in cs]))
        if ok:
            m = cs[0].args[0]
            own = term_contains(m, M.f_fld(M.f_deref(P(1)), i_map)) or any(m.eq(d.result) and term_contains(d.args[0], M.f_fld(M.f_deref(P(1)), i_map)) for d in der)
            okk = own and cs[0].args[1].eq(P(2)) and o.value is not None and to_term(o.value).eq(cs[-1].result)
            ctx.ob(key, '%s(name) answers whether this builder\'s name map - the one add resolves dependencies in - has the name exactly as given' % n, bool(okk),
                   'map %s key %s value %r' % (m, cs[0].args[1], o.value))


_attach('C18', 'has_system / contains answer from the name map add uses', spec_builder_queries)
_attach('C02', 'has_system / contains answer from the name map add uses', spec_builder_queries)
