"""Native confirmation programs for E2 findings (plain tests against the real crate). Optional:
where none exists for a key the MIR path itself is the counterexample."""
import os, subprocess
VERIF = os.path.dirname(os.path.dirname(os.path.abspath(__file__)))
ENV = dict(os.environ, CARGO_NET_OFFLINE='true')

# (property, key-prefix) -> test filter in /verif/confirm
TABLE = {('C20', 'print-unnamed'): 'c20', ('C13', 'batch-dispose'): 'c13'}


def run(pid, key):
    for (p, prefix), flt in TABLE.items():
        if p == pid and key.startswith(prefix):
            cmd = ['cargo', 'test', '--offline', '--target-dir', os.path.join(VERIF, '.build', 'confirm'), '--test', flt]
            r = subprocess.run(cmd, cwd=os.path.join(VERIF, 'confirm'), stdout=subprocess.PIPE, stderr=subprocess.STDOUT, text=True, env=ENV)
            if 'test result: FAILED' in r.stdout or 'panicked' in r.stdout:
                return 'confirmed', r.stdout
            if 'test result: ok' in r.stdout and ' 0 passed' not in r.stdout:
                return 'refuted', r.stdout
            return 'none', r.stdout
    return 'none', ''
