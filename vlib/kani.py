"""E1 driver: runs Kani/CBMC harnesses of /verif/kani against /repo's current working tree,
parses per-check results, extracts counterexamples (concrete playback) and replays them natively."""
import json, os, re, shutil, subprocess, sys, time, hashlib

VERIF = os.path.dirname(os.path.dirname(os.path.abspath(__file__)))
KANI_DIR = os.path.join(VERIF, 'kani')
REPLAY_DIR = os.path.join(VERIF, 'replay')
BUILD = os.path.join(VERIF, '.build')
ENV = dict(os.environ, CARGO_NET_OFFLINE='true', RUST_BACKTRACE='0')

# CBMC options fixed for all harnesses (DESIGN §3.2)
CBMC_ARGS = ['--cbmc-args', '--max-field-sensitivity-array-size', '8192']
REDUCED = ['--no-memory-safety-checks', '--no-undefined-function-checks', '--no-assertion-reach-checks']


def sh(cmd, **kw):
    return subprocess.run(cmd, stdout=subprocess.PIPE, stderr=subprocess.STDOUT, text=True, env=ENV, **kw)


def mem_limit_prefix(gb):
    # ulimit -v is per process: every cbmc child inherits it
    return ['bash', '-c', 'ulimit -v %d; exec "$@"' % (gb * 1024 * 1024), 'bash']


def harness_source_names():
    """All harness names defined in the kani crate (from the committed sources)."""
    names = {}
    src = os.path.join(KANI_DIR, 'src')
    for fn in os.listdir(src):
        p = os.path.join(src, fn)
        txt = open(p).read()
        mod = fn.split('.')[0]
        if fn.endswith('.in'):
            mod = fn.split('_instances')[0]
        for m in re.finditer(r'^\s{4}(?:@plain\s+)?(\w+)\s*:', txt, re.M) if fn.endswith('.in') else []:
            names[m.group(1)] = mod
        for m in re.finditer(r'kani::proof\)\]\s*(?:#\[[^\]]*\]\s*)*pub fn (\w+)\(', txt):
            names[m.group(1)] = mod
    return names


class KaniResult:
    def __init__(self, name):
        self.name = name
        self.status = 'not_run'      # ok | failed | undecided
        self.time_s = None
        self.n_checks = 0
        self.failed = []             # [(description, location)]
        self.covers = {}             # description -> SATISFIED/UNSATISFIABLE/UNREACHABLE
        self.unwind_failed = False
        self.labelled = {}           # property label -> number of reachable labelled assertions
        self.from_cache = False
        self.raw = ''

    def to_json(self):
        return {'harness': self.name, 'status': self.status, 'solver_time_s': self.time_s,
                'checks': self.n_checks, 'failed_checks': [d for d, _ in self.failed],
                'covers': self.covers, 'labelled_assertions': self.labelled, 'from_cache': self.from_cache}


CHECK_RE = re.compile(r'^Check \d+: (\S.*?)\n\t - Status: (\w+)\n\t - Description: "(.*?)"\n(?:\t - Location: (.*?)\n)?', re.M | re.S)


def parse_result_file(path, res):
    txt = open(path, errors='replace').read()
    res.raw = path
    n = 0
    for m in CHECK_RE.finditer(txt):
        name, status, desc, loc = m.group(1), m.group(2), m.group(3).strip('"'), m.group(4) or ''
        n += 1
        lm = re.match(r'^(C\d\d)[\[:]', desc)
        if lm and status in ('SUCCESS', 'FAILURE'):
            res.labelled[lm.group(1)] = res.labelled.get(lm.group(1), 0) + 1
        if '.cover.' in name or status in ('SATISFIED', 'UNSATISFIABLE'):
            # the same witness text may occur at several program points: satisfied if any of them is
            if res.covers.get(desc) != 'SATISFIED':
                res.covers[desc] = status
            continue
        if status == 'FAILURE':
            if 'unwinding assertion' in desc:
                res.unwind_failed = True
            res.failed.append((desc, loc))
        elif status in ('UNDETERMINED', 'ERROR'):
            res.failed.append(('UNDETERMINED: ' + desc, loc))
            res.unwind_failed = True
    res.n_checks = n
    m = re.search(r'Verification Time: ([0-9.]+)s', txt)
    if m:
        res.time_s = float(m.group(1))
    if 'VERIFICATION:- SUCCESSFUL' in txt:
        res.status = 'ok'
    elif 'VERIFICATION:- FAILED' in txt:
        res.status = 'failed'
        if 'CBMC failed' in txt or 'Status: ERROR' in txt or 'out of memory' in txt.lower() or 'timed out' in txt.lower():
            res.status = 'undecided'
        if not res.failed:
            res.status = 'undecided'
    else:
        res.status = 'undecided'
    return res


def run_harnesses(qualified, target_name, jobs=12, harness_timeout_s=900, full_checks=False, mem_gb=14, wall_cap_s=None, remember_undecided=None):
    """qualified: list of 'module::harness'. Returns ({name: KaniResult}, wall_s, log_path).
    remember_undecided: regex of instances (the thorough tier's best-effort shapes) whose 'not decided within this cap and
    memory limit' outcome is remembered per (tree, harness sources, flags, cap, limit) - it is reported as not decided again
    instead of burning the cap once more in the next property that shares the instance."""
    tdir = os.path.join(BUILD, 'kani-' + target_name)
    outdir = os.path.join(tdir, 'result_output_dir')
    if os.path.isdir(outdir):
        shutil.rmtree(outdir)
    os.makedirs(os.path.join(BUILD, 'logs'), exist_ok=True)
    log = os.path.join(BUILD, 'logs', 'kani-%s.log' % target_name)
    results = {}
    todo = []
    for q in qualified:
        c = cache_load(q, full_checks)
        if c is None and remember_undecided and re.search(remember_undecided, q) and not os.environ.get('VERIF_NO_CACHE') \
                and os.path.exists(undecided_path(q, full_checks, harness_timeout_s, mem_gb)):
            c = KaniResult(q)
            c.status = 'undecided'
            c.from_cache = True
        if c is not None:
            results[q] = c
        else:
            todo.append(q)
    wall, build_failed = 0.0, False
    if todo:
        cmd = mem_limit_prefix(mem_gb) + ['cargo', 'kani', '--target-dir', tdir, '-j', str(jobs), '--output-format', 'terse',
                                          '--output-into-files', '--exact', '-Z', 'unstable-options',
                                          '--harness-timeout', '%ds' % harness_timeout_s]
        for q in todo:
            cmd += ['--harness', q]
        if not full_checks:
            cmd += REDUCED
        cmd += CBMC_ARGS
        t0 = time.time()
        with open(log, 'w') as lf:
            try:
                p = subprocess.run(cmd, cwd=KANI_DIR, stdout=lf, stderr=subprocess.STDOUT, env=ENV,
                                   timeout=wall_cap_s or (harness_timeout_s * (1 + len(todo) // max(jobs, 1)) + 600))
            except subprocess.TimeoutExpired:
                pass
        wall = time.time() - t0
        logtxt = open(log, errors='replace').read()
        build_failed = ('error: could not compile' in logtxt) or ('error[E' in logtxt)
        for q in todo:
            r = KaniResult(q)
            f = os.path.join(outdir, q)
            if os.path.exists(f):
                parse_result_file(f, r)
                cache_store(r, full_checks)
            else:
                r.status = 'undecided'
            if r.status == 'undecided' and remember_undecided and re.search(remember_undecided, q) and not build_failed:
                os.makedirs(os.path.join(BUILD, 'cache'), exist_ok=True)
                open(undecided_path(q, full_checks, harness_timeout_s, mem_gb), 'w').write('not decided within %d s / %d GB\n' % (harness_timeout_s, mem_gb))
            results[q] = r
    return results, wall, log, build_failed


def undecided_path(qualified, full_checks, timeout_s, mem_gb):
    return os.path.join(BUILD, 'cache', '%s.undecided_%d_%d' % (cache_key(qualified, full_checks), timeout_s, mem_gb))


PB_RE = re.compile(r"/// Check for `(\w+)`: \"\"?(.*?)\"?\"\s*\n.*?let concrete_vals: Vec<Vec<u8>> = vec!\[(.*?)\n    \];", re.S)


def playback(qualified, target_name='pb', timeout_s=1200, full_checks=False, mem_gb=20):
    """Runs one harness with concrete playback; returns [(kind, description, [u64 values])]."""
    tdir = os.path.join(BUILD, 'kani-' + target_name)
    log = os.path.join(BUILD, 'logs', 'kani-pb-%s.log' % qualified.replace('::', '__'))
    cmd = mem_limit_prefix(mem_gb) + ['cargo', 'kani', '--target-dir', tdir, '--exact', '--harness', qualified,
                                      '-Z', 'unstable-options', '-Z', 'concrete-playback', '--concrete-playback=print']
    if not full_checks:
        cmd += REDUCED
    cmd += CBMC_ARGS
    with open(log, 'w') as lf:
        try:
            subprocess.run(cmd, cwd=KANI_DIR, stdout=lf, stderr=subprocess.STDOUT, env=ENV, timeout=timeout_s)
        except subprocess.TimeoutExpired:
            return [], log
    txt = open(log, errors='replace').read()
    out = []
    for m in PB_RE.finditer(txt):
        kind, desc, body = m.group(1), m.group(2), m.group(3)
        vals = []
        for v in re.finditer(r'vec!\[([0-9, ]*)\]', body):
            bs = [int(x) for x in v.group(1).split(',') if x.strip()]
            vals.append(sum(b << (8 * i) for i, b in enumerate(bs)))
        out.append((kind, desc.strip('"'), vals))
    return out, log


_replay_built = {}


def build_replay(profile):
    if profile in _replay_built:
        return _replay_built[profile]
    tdir = os.path.join(BUILD, 'replay')
    cmd = ['cargo', 'build', '--offline', '--target-dir', tdir]
    if profile == 'release':
        cmd.append('--release')
    p = sh(cmd, cwd=REPLAY_DIR)
    exe = os.path.join(tdir, 'release' if profile == 'release' else 'debug', 'replay')
    ok = p.returncode == 0 and os.path.exists(exe)
    _replay_built[profile] = (exe if ok else None, p.stdout[-3000:])
    return _replay_built[profile]


def native_replay(harness, values, profile='debug', timeout_s=120):
    """Returns (outcome, text): outcome in reproduced | not_reproduced | void | error."""
    exe, out = build_replay(profile)
    if exe is None:
        return 'error', 'replay crate does not build:\n' + out
    try:
        p = sh([exe, harness] + [str(v) for v in values], timeout=timeout_s)
    except subprocess.TimeoutExpired:
        return 'error', 'replay timed out'
    if p.returncode == 101:
        return 'reproduced', p.stdout
    if p.returncode == 0:
        return 'not_reproduced', p.stdout
    if p.returncode == 4:
        return 'void', p.stdout
    return 'error', 'exit %d\n%s' % (p.returncode, p.stdout)


# sources a harness module is compiled from besides the shared ones (models, Cargo.toml, lib.rs, sym.rs, vocab.rs)
MODULE_DEPS = {'step': ['step'], 'commit': ['commit', 'step'], 'relabel': ['relabel', 'step'], 'exec': ['exec'], 'unit': ['unit'],
               'parseq': ['parseq', 'exec'], 'world': ['world'], 'data': ['data']}
_crate_hash = {}


def harness_crate_hash(module=None):
    """Hash of everything a harness of `module` is compiled from: a verdict is reused only while these files, the tree
    of /repo and the flags are byte-identical. Editing one harness family does not invalidate the others."""
    if module in _crate_hash:
        return _crate_hash[module]
    h = hashlib.sha256()
    src = os.path.join(KANI_DIR, 'src')
    mods = MODULE_DEPS.get(module)
    for root in [src, os.path.join(KANI_DIR, 'models')]:
        for d, _, fs in sorted(os.walk(root)):
            for f in sorted(fs):
                pth = os.path.join(d, f)
                if root == src and mods is not None:
                    stem = f.split('.')[0].split('_instances')[0]
                    if stem not in ('lib', 'sym', 'vocab') and stem not in mods:
                        continue
                h.update(pth.encode())
                h.update(open(pth, 'rb').read())
    h.update(open(os.path.join(KANI_DIR, 'Cargo.toml'), 'rb').read())
    _crate_hash[module] = h.hexdigest()[:16]
    return _crate_hash[module]


def cache_key(qualified, full_checks):
    return hashlib.sha256(('%s|%s|%s|%s|%s' % (repo_tree_hash(), harness_crate_hash(qualified.split('::')[0]), qualified, full_checks, ' '.join(CBMC_ARGS + REDUCED))).encode()).hexdigest()[:24]


def cache_load(qualified, full_checks):
    """Verdicts are a function of (repo tree, harness crate, harness, flags): a decided instance is
    reused when all of these are byte-identical (never across different trees). VERIF_NO_CACHE=1 disables."""
    if os.environ.get('VERIF_NO_CACHE'):
        return None
    pth = os.path.join(BUILD, 'cache', cache_key(qualified, full_checks) + '.json')
    if not os.path.exists(pth):
        return None
    try:
        d = json.load(open(pth))
    except Exception:
        return None
    r = KaniResult(qualified)
    r.status, r.time_s, r.n_checks = d['status'], d['time_s'], d['n_checks']
    r.failed = [tuple(x) for x in d['failed']]
    r.covers, r.unwind_failed, r.labelled = d['covers'], d['unwind_failed'], d['labelled']
    r.from_cache = True
    return r


def cache_store(r, full_checks):
    if r.status not in ('ok', 'failed'):
        return
    os.makedirs(os.path.join(BUILD, 'cache'), exist_ok=True)
    pth = os.path.join(BUILD, 'cache', cache_key(r.name, full_checks) + '.json')
    json.dump({'status': r.status, 'time_s': r.time_s, 'n_checks': r.n_checks, 'failed': r.failed, 'covers': r.covers,
               'unwind_failed': r.unwind_failed, 'labelled': r.labelled}, open(pth, 'w'))


def repo_tree_hash():
    h = hashlib.sha256()
    for root in ['/repo/src', '/repo/shred-derive/src']:
        for d, _, fs in sorted(os.walk(root)):
            for f in sorted(fs):
                p = os.path.join(d, f)
                h.update(p.encode())
                h.update(open(p, 'rb').read())
    for p in ['/repo/Cargo.toml', '/repo/shred-derive/Cargo.toml']:
        h.update(open(p, 'rb').read())
    return h.hexdigest()[:16]
