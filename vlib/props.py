"""Which harness families / MIR checks decide which property, per tier."""
import re
from . import kani as K

_names = None


def names_of(module):
    global _names
    if _names is None:
        _names = K.harness_source_names()
    return sorted(n for n, m in _names.items() if m == module)


def sel(module, quick_re, thorough_re=None):
    def f(tier):
        rx = quick_re if tier == 'quick' else (thorough_re or quick_re)
        return [n for n in names_of(module) if re.search(rx, n)]
    return f


# --- planner step family -----------------------------------------------------------------------
# quick: shapes 1x1x1 1x2x1 2x1x1 2x2x1, 1 read + 1 write per group and for the new system,
#        every barrier position, 0/1 dependencies (+ 2 / 2-equal on 2x1x1 and 1x2x1)
STEP_Q = (r'^step_s(1g1l1|1g2l1|2g1l1|2g2l1)_r1w1_b\d_d(0|1|2|2e)_n11$|^step_s(2g1l1|2g2l1)_r1w1_b[01]_d3aba_n11$|^step_s1g1l[34]_r1w1_b0_d[01]_n11$|^step_s1g2l5_r1w1_b0_d0_n11$|^step_s1g2l1_r2w1_b0_d[01]_n12$|^step_s1g1l1_r1w1_b0_d0_n(13|31)$|^step_s1g2l1_r2w1_b0_d0_n13$|^step_s1g1l1_r(3w1|1w3)_b0_d0_n11$|^step_s(1g1l1|1g2l1)_r1w1_b0_d5s_n11$|^step_s2g1l1_r1w1_b1_d5s_n11$')
STEP_T = r'^step_'
STEP_FUNCS = ['StagesBuilder::insertion_target', 'StagesBuilder::find_conflict', 'StagesBuilder::remove_ids',
              'StagesBuilder::improves_balance', 'Conflict::add', 'dispatch::util::check_intersection',
              '<ResourceId as PartialEq>::eq']
STEP_BOUNDS = {'shapes_quick': '1x1x1 1x2x1 2x1x1 2x2x1 (+1x1x3 1x1x4 for capacity)', 'shapes_thorough': 'adds 1x2x2 1x3x1 3x1x1 2x2x2 1x1x3 1x1x4 1x2x4 2x1x2 3x2x1 and 2 reads/2 writes on 1x2x1 2x1x1 2x2x1',
               'resources': '2 static types x 3 dynamic ids', 'reads/writes per group': '1 (quick; 2 and 3 on 1x1x1 / 1x2x1) / <=2', 'reads/writes of the new system': '1 (quick; 2 and 3 on 1x1x1 / 1x2x1) / <=2', 'dependencies': '0, 1, 2 distinct, 2 equal, 3 as [a,b,a], 5 equal (beyond the inline capacity of the list)',
               'barrier': 'every value in {0, S-1, S}', 'unwinding': 'per instance, unwinding assertions on'}
STEP_ASSUME = ['pre-state: five tables of identical concrete shape, the ids 0..n placed in the slots by a solver-chosen permutation, accumulated time of a group of l systems in l..=5l (Inv I1,I2,I4,I5)',
               'the new system\'s reads reach insertion_target sorted and de-duplicated (insert does that before the call; E2 spec_insert checks it), its writes in any order with duplicates; group tables are arbitrary lists',
               'dependencies name existing system ids (DispatcherBuilder::add resolves names or panics)',
               'smallvec/arrayvec replaced by Vec-backed contract models under Kani; counterexamples are replayed on the real crates',
               'CBMC reduced check set in quick tier: no std-internal pointer checks; Rust panics, overflow, unwinding and harness assertions kept']
STEP_OUT = ['shapes beyond the list', 'real thread timing', 'more than 3 reads/writes per group in the pre-state or in the new system']


def step_part(labels_owner=None):
    return {'engine': 'kani', 'family': 'step', 'module': 'step', 'select': sel('step', STEP_Q, STEP_T),
            'unlabelled_owner': labels_owner, 'jobs': 14, 'timeout_quick': 600, 'timeout_thorough': 1500, 'mem_gb': 14,
            # thorough-only shapes: decided when CBMC finishes within the cap, otherwise listed as not decided
            'best_effort': r'step_s(2g2l2|3g2l1|1g2l4|2g1l2|1g3l1|1g2l2|3g1l1)_|_r2w2_'}


RULE_STEP = ('one Kani/CBMC harness instance per concrete pre-state shape x barrier x dependency pattern; contents '
             '(resource ids, running times, dependency ids, new system) are solver variables; an instance is non-trivial '
             'when it is decided and at least one reachability witness (kani::cover) is satisfied')

def step_prop(funcs_extra=(), owner=None):
    return {'level': 'model_checking', 'rule': RULE_STEP, 'functions': STEP_FUNCS + list(funcs_extra), 'bounds': STEP_BOUNDS,
            'assumptions': STEP_ASSUME, 'outside': STEP_OUT, 'parts': [step_part(owner)]}


EXEC_FUNCS = ['Dispatcher::{setup,dispose,dispatch,dispatch_par,dispatch_seq,dispatch_thread_local,try_into_sendable,max_threads}',
              'SendDispatcher::{setup,dispose,dispatch,dispatch_par,dispatch_seq,max_threads}', 'Stage::{setup,dispose,execute,execute_seq,max_threads}',
              'BatchControllerSystem::{run,setup,dispose,accessor}', '<T as RunNow>::{run_now,setup,dispose}', 'new_dispatcher']
EXEC_BOUNDS = {'pool size reported by rayon': 'solver variable 1..16', 'layouts': '[[1],[2]],[[1]] | [[5],[1]] | [[1],[1],[1]],[[1]],[[1],[1]] | batch next to one system, inner [[1],[1]],[[1]] | batch with an inner thread-local system',
               'thread-local systems': '0..2', 'call sequences': 'two dispatch calls per instance out of dispatch/dispatch_par/dispatch_seq/dispatch_thread_local, then dispose or try_into_sendable',
               'inner dispatches per controller run': '0,1,2', 'job start order inside a parallel region': 'solver variable (forward / reverse)'}
EXEC_ASSUME = ['rayon is replaced by a sequential contract model: every for_each / join opens a region whose jobs may overlap arbitrarily, each job runs exactly once, the call returns after all jobs, install runs the closure inside the pool',
               'layouts are constructed directly through the verif-hooks (Stage::verif_push, new_dispatcher); that the planner tabulates what is executed is the commit harness',
               'harness systems keep their data outside the World (no hashbrown in the formula)']
EXEC_OUT = ['real thread interleavings and timing', 'pool sizes (the model has no worker count)', 'layouts beyond the list', 'async dispatcher']
RULE_EXEC = ('one Kani/CBMC harness instance per concrete layout x call sequence; the start order of the jobs of every parallel region is a solver variable; '
             'non-trivial = decided instance whose reachability witnesses are satisfied')


def exec_part(owner=None):
    return {'engine': 'kani', 'family': 'exec', 'module': 'exec', 'select': sel('exec', r'^exec_[a-e]_', r'^exec_'), 'unlabelled_owner': owner,
            'jobs': 10, 'timeout_quick': 420, 'timeout_thorough': 2400, 'mem_gb': 14}


PROPS_C06 = {'level': 'other', 'rule': 'one obligation per (function, clause of its specification); the functions are the MIR bodies of the current tree; non-trivial = obligation whose function body was symbolically executed along at least one path',
            'explanation': 'E2: symbolic execution of the nightly MIR of the current tree (callees uninterpreted, Vec<ResourceId> as z3 sequences), z3 decides every comparison, cvc5 re-decides the same SMT-LIB text',
            'functions': [], 'bounds': {'loop unrolling': '3 (quick) / 5 (thorough)', 'tuple arities': '1..26', 'derive samples': 'mir/derive_samples (9 structs: named, tuple, extra lifetimes, generics + where, bare type-parameter fields, nesting 3)'},
            'assumptions': ['callees that are type parameters or third-party code are uninterpreted: the claim is parametric in them', 'atomic_refcell releases a borrow when its guard is dropped', 'rustc nightly MIR (debug-assertions off) is the semantics of the source'],
            'outside': ['run-time borrow state of a populated World (hashbrown)', 'user-written SystemData impls'],
            'parts': [{'engine': 'mir'}]}

MIR_ASSUME = ['callees that are type parameters or third-party code are uninterpreted (the claim is parametric in them); std collection/iterator contracts are assumed',
              'rustc nightly MIR (debug-assertions off) is the semantics of the source', 'loops are unrolled 3 times in the quick tier, 5 times in thorough (0..k items per loop; a function whose path count exceeds the step bound is retried with 3, then 1, and listed in the evidence)']
MIR_RULE = ('E2 obligations: one per (function of the current MIR dump, clause of its specification); z3 decides every value comparison and path feasibility, '
            'cvc5 re-decides the same SMT-LIB text; non-trivial = obligation over a function whose body was symbolically executed')


def mir_part(specs=None):
    return {'engine': 'mir', 'specs': specs}


def prop(level, parts, funcs, bounds, assume, outside, rule, explanation=None):
    d = {'level': level, 'parts': parts, 'functions': funcs, 'bounds': bounds, 'assumptions': assume, 'outside': outside, 'rule': rule}
    if explanation:
        d['explanation'] = explanation
    return d


def both(a, b):
    return {**a, **b}


def commit_part(owner=None):
    return {'engine': 'kani', 'family': 'commit', 'module': 'commit', 'select': sel('commit', r'^commit_'), 'unlabelled_owner': owner,
            'jobs': 8, 'timeout_quick': 900, 'timeout_thorough': 2400, 'mem_gb': 20}


def relabel_part():
    return {'engine': 'kani', 'family': 'relabel', 'module': 'relabel',
            'select': sel('relabel', r'^relabel_(s1g1l1_r1w1_b0_d0_n11|s1g2l1_r1w1_b0_d0_n11|s1g2l1_r2w1_b0_d0_n12|s2g1l1_r2w1_b0_d0_n12|s1g1l2_r2w2_b0_d0_n22|s1g1l1_r1w1_b0_d0_n13|s1g2l1_r1w1_b0_d0_n31)$', r'^relabel_'),
            'unlabelled_owner': None, 'jobs': 8, 'timeout_quick': 900, 'timeout_thorough': 2400, 'mem_gb': 20}


def parseq_part(kind):
    # 'ok': any panic of Par::with is a violation; 'conflict': the library's own assertion is expected, the sentinel must be unreachable
    d = {'engine': 'kani', 'family': 'parseq-' + kind, 'module': 'parseq', 'jobs': 5, 'timeout_quick': 420, 'timeout_thorough': 1200, 'mem_gb': 14}
    if kind == 'ok':
        d.update({'select': sel('parseq', r'^parseq_(ok_|tree_)'), 'unlabelled_owner': 'C16'})
    else:
        d.update({'select': sel('parseq', r'^parseq_conflict_'), 'unlabelled_owner': 'C16', 'ignore_unlabelled': r'Tried to add system with conflicting reads / writes|read_write_intersections_safe', 'expect_failed': True})
    return d


def unit_part(rx_quick, rx_thorough=None):
    return {'engine': 'kani', 'family': 'unit', 'module': 'unit', 'select': sel('unit', rx_quick, rx_thorough), 'unlabelled_owner': None,
            'jobs': 6, 'timeout_quick': 900, 'timeout_thorough': 2400, 'mem_gb': 20}


# --- World / system-data families (association-list model of the resource map, real atomic_refcell) -------------
WORLD_IGNORE = r'atomic_refcell|shred::World::(try_)?fetch|\{\}: \{e\}'


def world_part(kind, pid):
    """ok: no conflict in the history - any panic is a violation; conflict / mismatch: the library's own panic is
    expected (ignored), the sentinel behind the call must be unreachable"""
    d = {'engine': 'kani', 'family': 'world-' + kind, 'module': 'world', 'jobs': 10, 'timeout_quick': 420, 'timeout_thorough': 1200, 'mem_gb': 14, 'unlabelled_owner': pid}
    if kind == 'ok':
        if pid == 'C08':
            d['select'] = sel('world', r'^world_ok_(static|clone|history4|history_by_id4)$', r'^world_ok_(static|clone|history\d+|history_by_id\d+)$')
        else:
            d['select'] = sel('world', r'^world_ok_(static|clone|dynamic_\w+|typed|drops)$')
        d['native_sanity'] = True
    elif kind == 'conflict':
        d.update({'select': sel('world', r'^world_conflict_'), 'ignore_unlabelled': WORLD_IGNORE, 'expect_failed': True})
    else:
        d.update({'select': sel('world', r'^world_mismatch_'), 'ignore_unlabelled': r'wrong type ID|assert_same_type_id', 'expect_failed': True})
    return d


def data_part():
    return {'engine': 'kani', 'family': 'data', 'module': 'data', 'unlabelled_owner': 'C06', 'native_sanity': True, 'jobs': 12, 'timeout_quick': 420, 'timeout_thorough': 1200, 'mem_gb': 14,
            'select': sel('data', r'^data_(read_p111|write_p111|read_expect_p001|write_expect_p100|opt_read_p000|opt_read_p100|opt_write_p000|opt_write_p010|unit_p111|phantom_p111|tuple1_p001|tuple2_p110|tuple3_p011|tuple_same_read_p100|nested_p101|derive_named_p110|derive_tuple_p100|derive_tuple_p101|derive_nested_p110|derive_generic_p011|system_data_p101|derive_two_instantiations)$', r'^data_')}


WORLD_FUNCS = ['World::{empty,insert,insert_by_id,remove,remove_by_id,has_value,has_value_raw,get_mut,get_mut_raw,fetch,fetch_mut,try_fetch,try_fetch_mut,try_fetch_by_id,try_fetch_mut_by_id,try_fetch_internal}',
               'ResourceId::{new,new_with_dynamic_id,assert_same_type_id} + derived Eq', 'Fetch / FetchMut (deref, drop, clone)', 'atomic_refcell::AtomicRefCell (the real crate)']
WORLD_BOUNDS = {'borrow histories (E1, C08)': 'EVERY sequence of 4 (quick) / 3, 4, 6, 8 (thorough) operations (static API) and of 4 / 4, 6 operations (by-id API, solver-chosen dynamic id) on one resource out of {shared fetch into slot 1 or 2, exclusive fetch, drop of each of the three guards} - the operation of each step is a solver variable; an operation the borrow model forbids is skipped (what happens then is the conflict family); after every step the real cell is probed and must be free / shared / exclusive as the model says',
                'world histories (E1)': 'the listed scenarios: <= 3 resources (2 static types, 2 symbolic u64 dynamic ids), <= 6 API calls each; payloads, dynamic ids symbolic (all 2^64 values)',
                'resource map': 'association-list contract model of ahash::AHashMap (get/insert/remove/contains_key; entry() not modelled - it panics)'}
WORLD_ASSUME = ['the resource map is an association list with HashMap\'s contract (one slot per equal key, insert replaces, remove returns): hashbrown itself is not executed under Kani (it is in the native replay)',
                'single thread (Kani); atomics are executed sequentially']


COMMIT_FUNCS = ['StagesBuilder::insert (decision + add_stage/add_group + the five pushes)', 'smallvec/arrayvec push/extend (contract models)']
COMMIT_BOUNDS = {'commit shapes': '0 stages | 1x1x1 | 1x2x1 | 2x1x1, barrier = number of stages (forces the NewStage target: a solver-chosen target makes the real insert index its tables symbolically - out of memory at 30 GB)',
                 'new system': '<= 2 reads, <= 2 writes (duplicates and read/write overlap allowed), symbolic time, 0/1 dependency', 'join-a-group / open-a-group paths of the commit': 'decided by E2 on the MIR of insert, all (stage, group) values'}
RELABEL_BOUNDS = {'relabel shapes': '1x1x1 1x2x1 2x1x1 1x1x2, <= 2 reads and <= 2 writes per group, <= 3 reads / <= 3 writes for the new system', 'relabelling': 'any permutation of the 6 resource ids (2 static types x 3 dynamic ids), any order of the declared lists (reads reach insertion_target sorted and de-duplicated, as insert passes them)'}


PROPS_C06['parts'] = [{'engine': 'mir'}, data_part()]
PROPS_C06['functions'] = ['<T as SystemData>::{fetch,reads,writes} for Read, Write, ReadExpect, WriteExpect, Option<Read>, Option<Write>, (), PhantomData, tuples (1,2,3 members, nested), 4 derived structs (named, tuple, nested, generic with where-clause) - real derive macro output', 'World::{insert,try_fetch,try_fetch_mut,try_fetch_internal}', 'atomic_refcell::AtomicRefCell']
PROPS_C06['bounds'] = dict(PROPS_C06['bounds'], **{'fetch harness (E1)': '17 system-data types x 2-3 concrete presence patterns of the resources A, B, C (37 instances; 20 in quick); payloads symbolic; after fetch the borrow state of every cell is observed (try_borrow / try_borrow_mut) and compared with reads()/writes(); after drop every cell is free',
                                                  'resource map': 'association-list contract model of ahash::AHashMap'})
PROPS_C06['assumptions'] = PROPS_C06['assumptions'] + WORLD_ASSUME
PROPS_C06['outside'] = ['run-time borrow state for system-data types outside the E1 list (E2 covers their composition for all arities)', 'user-written SystemData impls', 'setup on a real World (DefaultProvider::setup goes through HashMap::entry, which the map model cannot provide)']
PROPS_C06['explanation'] += '; E1: the property verbatim (borrow state after fetch = declared access, all released after drop) on the real World for 17 provided / derived types'

PROPS = {
    'C01': prop('model_checking', [step_part(), commit_part(), exec_part(), mir_part()], STEP_FUNCS + EXEC_FUNCS, both(STEP_BOUNDS, EXEC_BOUNDS), STEP_ASSUME + EXEC_ASSUME, STEP_OUT + EXEC_OUT, RULE_STEP + ' | ' + RULE_EXEC),
    'C02': prop('model_checking', [step_part(), exec_part(), mir_part()], STEP_FUNCS + EXEC_FUNCS + ['DispatcherBuilder::add'], both(STEP_BOUNDS, EXEC_BOUNDS), STEP_ASSUME + EXEC_ASSUME + MIR_ASSUME, STEP_OUT + EXEC_OUT, RULE_STEP + ' | ' + RULE_EXEC + ' | ' + MIR_RULE),
    'C03': prop('model_checking', [step_part(), commit_part(), exec_part(), unit_part(r'^unit_barrier_'), mir_part()], STEP_FUNCS + ['StagesBuilder::add_barrier', 'DispatcherBuilder::add_barrier'], both(STEP_BOUNDS, EXEC_BOUNDS), STEP_ASSUME + EXEC_ASSUME + MIR_ASSUME, STEP_OUT + EXEC_OUT, RULE_STEP + ' | ' + RULE_EXEC + ' | ' + MIR_RULE),
    'C04': prop('model_checking', [exec_part('C04'), commit_part('C04'), mir_part()], EXEC_FUNCS + ['MultiDispatcher::run', 'DispatcherBuilder::add_batch'], EXEC_BOUNDS, EXEC_ASSUME + MIR_ASSUME, EXEC_OUT + ['hundreds of systems as one concrete plan (covered through the commit induction)'], RULE_EXEC + ' | ' + MIR_RULE),
    'C05': prop('model_checking', [exec_part(), dict(step_part(), labels=['C01']), mir_part()], EXEC_FUNCS + STEP_FUNCS, EXEC_BOUNDS, EXEC_ASSUME, EXEC_OUT + ['that non-conflicting steps commute on the real World under real interleavings (reduced claim: order agreement of dispatch_par and dispatch_seq on every ordered pair)'], RULE_EXEC),
    'C06': PROPS_C06,
    'C07': prop('other', [mir_part(), unit_part(r'^unit_fetchall_(s1g1l1_r2w2|s1g2l1_r1w1)', r'^unit_fetchall_')], ['DispatcherBuilder::add_batch', 'BatchAccessor::{new,reads,writes}', 'BatchControllerSystem::{create,run,accessor,running_time}', 'BatchUncheckedWorld::{fetch,setup}'], {'loop unrolling': '3 (quick) / 5 (thorough)', 'nesting': 'any depth: a nested batch is an ordinary system of the inner builder'}, MIR_ASSUME + ['fetch_all_reads/fetch_all_writes return every id of every group (E1 unit harness, thorough)', 'sort/dedup preserve membership (std contract)'], ['interleavings of outer systems with the batch (C01 applies to the batch as one system)'], MIR_RULE, 'E2 symbolic execution of the batch glue'),
    'C10': prop('model_checking', [step_part(), exec_part(), mir_part()], STEP_FUNCS + ['SendDispatcher::max_threads', 'Stage::max_threads', 'insertion_target::{closure#0,#1,#2} (E2, any table size)'], both(STEP_BOUNDS, EXEC_BOUNDS), STEP_ASSUME + EXEC_ASSUME + MIR_ASSUME, STEP_OUT, RULE_STEP + ' | ' + RULE_EXEC + ' | ' + MIR_RULE),
    'C11': prop('model_checking', [exec_part(), mir_part()], EXEC_FUNCS + ['DispatcherBuilder::{build,create_thread_pool,add_batch}'], EXEC_BOUNDS, EXEC_ASSUME + MIR_ASSUME, ['that real rayon with enough idle workers actually overlaps the jobs (liveness of rayon\'s scheduler)', 'async dispatcher'], RULE_EXEC + ' | ' + MIR_RULE),
    'C12': prop('model_checking', [exec_part(), mir_part()], EXEC_FUNCS + ['DispatcherBuilder::add_thread_local', 'AsyncDispatcher::wait'], EXEC_BOUNDS, EXEC_ASSUME + MIR_ASSUME, ['Dispatcher is !Send (a compile-time fact)', 'async dispatcher beyond the shape of wait()'], RULE_EXEC + ' | ' + MIR_RULE),
    'C13': prop('model_checking', [exec_part(), mir_part()], EXEC_FUNCS + ['DefaultProvider::setup', 'PanicHandler::setup'], EXEC_BOUNDS, EXEC_ASSUME + MIR_ASSUME, ['"no existing resource modified" on a populated World (hashbrown) beyond Entry::or_insert_with being the only mutation', 'async dispatcher setup'], RULE_EXEC + ' | ' + MIR_RULE),
    'C18': prop('model_checking', [step_part('C18'), mir_part()], STEP_FUNCS + ['DispatcherBuilder::{add,next_id,add_barrier,add_thread_local}'], STEP_BOUNDS, STEP_ASSUME + MIR_ASSUME, STEP_OUT + ['names needing sanitising (only the printer looks at them)'], RULE_STEP + ' | ' + MIR_RULE),
    'C08': prop('other', [mir_part(), world_part('ok', 'C08'), world_part('conflict', 'C08')], ['World::{try_fetch,try_fetch_mut,try_fetch_by_id,try_fetch_mut_by_id,fetch,fetch_mut}', 'Fetch::clone', 'Entry::or_insert_with', 'MetaIter::next', 'MetaIterMut::next'] + WORLD_FUNCS, dict({'loop unrolling': '3 (quick) / 5 (thorough)'}, **WORLD_BOUNDS),
                MIR_ASSUME + ['E2 only: atomic_refcell implements shared-xor-exclusive and releases a borrow when its guard is dropped (E1 executes the real crate)', 'std HashMap::get returns the cell stored under the key'] + WORLD_ASSUME,
                ['histories beyond the listed scenarios', 'many threads (Kani is sequential)', 'unwinding through a guard', 'meta-table iteration on a populated World (register goes through HashMap::entry)'], MIR_RULE + ' | E1: every assertion labelled C08 in the world_ok_* / world_conflict_* harnesses is a CBMC check over all payload / dynamic-id values; conflict harnesses: the library\'s own panic is expected, the sentinel behind the conflicting fetch must be unreachable',
                'E2: every shared-reference access path of World, path by path; E1: shared+shared, other resource, release-then-exclusive, clone, and every kind of conflict (static and by-id API) on the real World and the real atomic_refcell'),
    'C09': prop('other', [mir_part(), world_part('ok', 'C09'), world_part('mismatch', 'C09')], ['ResourceId::assert_same_type_id', 'World::{insert,insert_by_id,remove,remove_by_id,entry,has_value,has_value_raw,get_mut,exec}'] + WORLD_FUNCS, dict(WORLD_BOUNDS),
                MIR_ASSUME + ['E2 only: std HashMap laws (insert replaces, remove returns, entry-or-insert never overwrites, slots are independent)'] + WORLD_ASSUME, ['histories beyond the listed scenarios', 'entry-or-insert on a real map (HashMap::entry is not modelled; E2 specifies the forwarding)', 'a mismatching call "leaves the world unchanged" (Kani ends the path at the panic; E2: the check dominates every access)'],
                MIR_RULE + ' | E1: every assertion labelled C09 in the world_ok_* / world_mismatch_* harnesses is a CBMC check over all payload / dynamic-id values (both u64 dynamic ids symbolic, d1 != d2)',
                'E2: type check dominance and id provenance of every id-taking entry point, ResourceId fields / constructors / eq / hash; E1: presence, independence of dynamic slots, replace, remove, get_mut, exactly-once drop, rejection of mismatching ids on the real World'),
    'C15': prop('other', [mir_part()], ['AsyncDispatcher::{dispatch + spawned job, wait, wait_without_tl, world, world_mut, res, mut_res, running, setup}', 'Data::{inner, inner_noblock + closure, sender}', 'DispatcherBuilder::build_async', 'new_async'],
                {'loop unrolling': '3 (quick) / 5 (thorough)', 'plans': 'any (the bodies are parametric in the stages and the thread-local list)'},
                MIR_ASSUME + ['std::sync::mpsc: recv() returns exactly the value the job sent, after it was sent; try_recv() never blocks and answers Empty until then (documented contract) - this is where the happens-before between the background job and the caller comes from',
                              'ThreadPool::spawn runs the closure exactly once (rayon contract)', 'Stage::execute returns after every system of the stage ran (C04)'],
                ['real interleavings of the background job and the caller: the claim is the hand-over protocol, every step of which is a sequential body, under the channel contract above', 'liveness (that the job is ever scheduled)', 'a panic inside the job (C14)'], MIR_RULE,
                'REDUCED claim, E2: the state (world + stages) is either here or owned by exactly one background job; the job executes every stage once, in order, and only then sends the state back; every accessor (wait, wait_without_tl, world, world_mut, res, mut_res, setup) and dispatch itself first block on the state coming back; running() only polls and answers false exactly when the state is (or has just arrived) here; thread-local systems run only inside wait, on the caller, after the state is back'),
    'C16': prop('other', [mir_part(), parseq_part('ok'), parseq_part('conflict')], ['Seq::{run,setup,reads,writes,with,new}', 'Par::{run,setup,reads,writes,with,new} + run closures', 'leaf RunWithPool impl', 'ParSeq::{dispatch,setup}', 'Par::with in a debug-assertions build'], {'tree shapes': 'all (structural induction over head/tail)', 'loop unrolling': '3 (quick) / 5 (thorough)'},
                MIR_ASSUME + ['rayon::join / ThreadPool::join run both closures exactly once and return after both (contract)'], ['real overlap of par children', 'release builds do not check conflicts (cfg!(debug_assertions))'], MIR_RULE, 'E2: Par/Seq node bodies for all H, T'),
    'C17': prop('other', [mir_part()], ['attach_vtable', 'MetaTable::{register,get,get_mut,iter,iter_mut} + closures', 'MetaIter::next', 'MetaIterMut::next'], {'loop unrolling': '3 (quick) / 5 (thorough)', 'feature': 'non-nightly'},
                MIR_ASSUME + ['std HashMap::entry/len/get contracts', 'calling through the attached vtable is the compiler\'s business'], ['hashbrown', 'the nightly feature variant', 'machine-level vtable identity'], MIR_RULE, 'E2: meta table bodies'),
    'C19': prop('model_checking', [relabel_part(), commit_part(), mir_part()], STEP_FUNCS + COMMIT_FUNCS, both(RELABEL_BOUNDS, COMMIT_BOUNDS), STEP_ASSUME + MIR_ASSUME,
                ['cross-process / cross-compiler comparison (TypeId order is only used by sort, shown not to influence decisions)'], RULE_STEP + ' | ' + MIR_RULE),
    'C20': prop('other', [mir_part()], ['StagesBuilder::write_par_seq + closure', '<DispatcherBuilder as Debug>::fmt'], {'loop unrolling': 1}, MIR_ASSUME + ['ids table and executed list are in lock-step (C04 commit)'],
                ['the text for arbitrary names (String/fmt machinery is not executed)', 'empty builders beyond the 0-iteration paths'], MIR_RULE, 'E2: plan printer structure and totality of the name lookup'),
}
