"""Which harness families / MIR checks decide which property, per tier."""
import re
from . import kani as K

_names = None


def names_of(module):
    global _names
    if _names is None:
        _names = K.harness_source_names()
    return sorted(n for n, m in _names.items() if m == module)


def sel(module, quick_re, thorough_re=None):
    def f(tier):
        rx = quick_re if tier == 'quick' else (thorough_re or quick_re)
        return [n for n in names_of(module) if re.search(rx, n)]
    return f


# --- planner step family -----------------------------------------------------------------------
# quick: shapes 1x1x1 1x2x1 2x1x1 2x2x1, 1 read + 1 write per group and for the new system,
#        every barrier position, 0/1 dependencies (+ 2 / 2-equal on 2x1x1 and 1x2x1)
STEP_Q = r'^step_s(1g1l1|1g2l1|2g1l1|2g2l1)_r1w1_b\d_d[01]_n11$|^step_s(2g1l1|1g2l1)_r1w1_b\d_d2e?_n11$|^step_s1g1l[34]_r1w1_b0_d[01]_n11$'
STEP_T = r'^step_'
STEP_FUNCS = ['StagesBuilder::insertion_target', 'StagesBuilder::find_conflict', 'StagesBuilder::remove_ids',
              'StagesBuilder::improves_balance', 'Conflict::add', 'dispatch::util::check_intersection',
              '<ResourceId as PartialEq>::eq']
STEP_BOUNDS = {'shapes_quick': '1x1x1 1x2x1 2x1x1 2x2x1 (+1x1x3 1x1x4 for capacity)', 'shapes_thorough': 'adds 1x2x2 1x3x1 3x1x1 2x2x2 1x1x3 1x1x4 1x2x4 2x1x2 3x2x1 and 2 reads/2 writes on 1x2x1 2x1x1 2x2x1',
               'resources': '2 static types x 3 dynamic ids', 'reads/writes per group': '1 (quick) / <=2', 'dependencies': '0,1,2 distinct,2 equal',
               'barrier': 'every value in {0, S-1, S}', 'unwinding': 'per instance, unwinding assertions on'}
STEP_ASSUME = ['pre-state: five tables of identical concrete shape, ids 0..n in slot order, accumulated time of a group of l systems in l..=5l (Inv I1,I2,I4,I5)',
               'dependencies name existing system ids (DispatcherBuilder::add resolves names or panics)',
               'smallvec/arrayvec replaced by Vec-backed contract models under Kani; counterexamples are replayed on the real crates',
               'CBMC reduced check set in quick tier: no std-internal pointer checks; Rust panics, overflow, unwinding and harness assertions kept']
STEP_OUT = ['shapes beyond the list', 'real thread timing', 'more than 2 reads/writes per group in the pre-state']


def step_part(labels_owner=None):
    return {'engine': 'kani', 'family': 'step', 'module': 'step', 'select': sel('step', STEP_Q, STEP_T),
            'unlabelled_owner': labels_owner, 'jobs': 14, 'timeout_quick': 600, 'timeout_thorough': 2400, 'mem_gb': 14}


RULE_STEP = ('one Kani/CBMC harness instance per concrete pre-state shape x barrier x dependency pattern; contents '
             '(resource ids, running times, dependency ids, new system) are solver variables; an instance is non-trivial '
             'when it is decided and at least one reachability witness (kani::cover) is satisfied')

def step_prop(funcs_extra=(), owner=None):
    return {'level': 'model_checking', 'rule': RULE_STEP, 'functions': STEP_FUNCS + list(funcs_extra), 'bounds': STEP_BOUNDS,
            'assumptions': STEP_ASSUME, 'outside': STEP_OUT, 'parts': [step_part(owner)]}


PROPS = {
    'C06': {'level': 'other', 'rule': 'one obligation per (function, clause of its specification); the functions are the MIR bodies of the current tree; non-trivial = obligation whose function body was symbolically executed along at least one path',
            'explanation': 'E2: symbolic execution of the nightly MIR of the current tree (callees uninterpreted, Vec<ResourceId> as z3 sequences), z3 decides every comparison, cvc5 re-decides the same SMT-LIB text',
            'functions': [], 'bounds': {'loop unrolling': 3, 'tuple arities': '1..26', 'derive samples': 'mir/derive_samples (7 structs, nesting 3)'},
            'assumptions': ['callees that are type parameters or third-party code are uninterpreted: the claim is parametric in them', 'atomic_refcell releases a borrow when its guard is dropped', 'rustc nightly MIR (debug-assertions off) is the semantics of the source'],
            'outside': ['run-time borrow state of a populated World (hashbrown)', 'user-written SystemData impls'],
            'parts': [{'engine': 'mir'}]},
    'C01': step_prop(),
    'C02': step_prop(),
    'C10': step_prop(),
    'C18': step_prop(owner='C18'),
    'C03': {'level': 'model_checking', 'rule': RULE_STEP, 'functions': STEP_FUNCS + ['StagesBuilder::add_barrier'], 'bounds': STEP_BOUNDS,
            'assumptions': STEP_ASSUME, 'outside': STEP_OUT,
            'parts': [step_part()]},
}
