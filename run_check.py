#!/usr/bin/env python3-vt
"""Single entry point of the verification machinery.

    run_check.py <Cxx> [quick|thorough]      decide one property on /repo's current working tree
    run_check.py --replay <file.json>        replay a recorded counterexample natively

exit 0: property held on everything explored (KNOWN-FINDING lines for listed, still open findings)
exit 1: at least one `VIOLATION property=<id> replay=<path>` line (solver counterexample that
        reproduced natively against the real code)
exit 2: INCONCLUSIVE (undecided instance, vacuous harness, counterexample that does not replay,
        unsupported MIR construct, build failure) - never reported as a violation or as success
"""
import json, os, re, sys, time

VERIF = os.path.dirname(os.path.abspath(__file__))
sys.path.insert(0, VERIF)
from vlib import kani as K
from vlib import props as P

EVID = os.path.join(VERIF, 'evidence')
LABEL_RE = re.compile(r'^(C\d\d)(?:\[([^\]]+)\])?:\s*(.*)$')


def load_known():
    p = os.path.join(VERIF, 'known_findings.json')
    if not os.path.exists(p):
        return []
    return json.load(open(p))['findings']


def classify(desc):
    m = LABEL_RE.match(desc)
    if m:
        return m.group(1), (m.group(2) or ''), m.group(3)
    return None, '', desc


def run_kani_part(pid, part, tier, seed, report):
    """Runs one family of Kani harnesses; fills report; returns list of candidate violations
    [(harness, key, desc)] and list of inconclusive reasons."""
    names = part['select'](tier)
    if seed:
        # the seed only permutes scheduling order; every selected instance is decided
        import random
        random.Random(seed).shuffle(names)
    qualified = [part['module'] + '::' + n for n in names]
    full = (tier == 'thorough') and part.get('full_checks_thorough', False)
    res, wall, log, build_failed = K.run_harnesses(
        qualified, target_name=part.get('target', 'main'), jobs=part.get('jobs', 12),
        harness_timeout_s=part.get('timeout_' + tier, 600 if tier == 'quick' else 2400),
        full_checks=full, mem_gb=part.get('mem_gb', 14), remember_undecided=part.get('best_effort') if tier == 'thorough' else None)
    accept = part.get('labels') or [pid]     # assertion labels that count for this property in this part
    cands, incon = [], []
    if build_failed:
        incon.append('harness crate does not build against the current tree (see %s)' % log)
    owner = part.get('unlabelled_owner')
    for q in qualified:
        r = res[q]
        entry = r.to_json()
        entry['family'] = part['family']
        report['instances'].append(entry)
        if r.status == 'undecided':
            if tier == 'thorough' and part.get('best_effort') and re.search(part['best_effort'], q):
                # beyond-quick instances at the edge of what CBMC decides within the cap: reported, not a verdict
                report.setdefault('not_decided_best_effort', []).append(q)
            else:
                incon.append('%s undecided (timeout / memory / tool error), log %s' % (q, log))
            continue
        if r.unwind_failed:
            incon.append('%s: unwinding assertion failed (bound too small for this tree)' % q)
        sat = [d for d, s in r.covers.items() if s == 'SATISFIED']
        if r.covers and not sat and (r.status == 'ok' or part.get('expect_failed')):
            incon.append('%s: vacuous (no reachability witness satisfied)' % q)
        for d, s in r.covers.items():
            report['witnesses'].setdefault(d, 0)
            if s == 'SATISFIED':
                report['witnesses'][d] += 1
        for desc, loc in r.failed:
            if 'unwinding assertion' in desc or desc.startswith('UNDETERMINED'):
                continue
            lp, key, text = classify(desc)
            if lp in accept:
                cands.append((q, key, desc))
            elif lp is None and owner == pid:
                if part.get('ignore_unlabelled') and re.search(part['ignore_unlabelled'], desc + ' ' + loc):
                    continue
                cands.append((q, 'panic:' + re.sub(r'\W+', '_', text)[:60], desc))
            else:
                report['other_property_failures'].append({'harness': q, 'check': desc})
    if part.get('native_sanity'):
        # model validation: a harness the solver passed on the contract models must also run to its end natively,
        # on the REAL dependency set (hashbrown, smallvec, ...), for a few concrete value vectors
        checked = 0
        for q in qualified:
            if res[q].status != 'ok':
                continue
            for vec in ([1, 2, 3, 4, 5, 6, 7, 8, 9, 10, 11, 12], [7] * 12, [0, 1 << 32, 1, (1 << 64) - 1, 5, 5, 9, 1, 2, 3, 4, 5]):
                out, txt = K.native_replay(q.split('::')[-1], vec, 'debug')
                if out == 'reproduced':
                    incon.append('%s passes on the contract models but fails natively on the real crates for values %s (model / real-crate mismatch): %s' % (q, vec, txt[-300:]))
                    break
                if out == 'error':
                    incon.append('%s: native run on the real crates failed to execute: %s' % (q, txt[-200:]))
                    break
                checked += 1
        report['native_model_validation_runs'] = report.get('native_model_validation_runs', 0) + checked
    report['kani_wall_s'] += wall
    n_lab = sum(res[q].labelled.get(l, 0) for q in qualified for l in accept)
    report['property_assertions'] = report.get('property_assertions', 0) + n_lab
    if n_lab == 0 and owner != pid and not part.get('no_labels'):
        incon.append('family %s: no reachable assertion labelled %s was checked (harness/label mismatch)' % (part['family'], pid))
    return cands, incon


def confirm(pid, cands, part, report):
    """Replays one representative per key natively. Returns (violations, known, incon)."""
    known = [f for f in load_known() if f['property'] == pid and f.get('status', 'open') == 'open']
    by_key = {}
    for q, key, desc in cands:
        by_key.setdefault(key, []).append((q, desc))
    violations, known_hits, incon = [], [], []
    os.makedirs(os.path.join(EVID, 'replay'), exist_ok=True)
    for key, lst in sorted(by_key.items()):
        lst.sort(key=lambda x: (len(x[0]), x[0]))
        done = False
        for q, desc in lst[:3]:
            pbs, pblog = K.playback(q, target_name=part.get('target', 'main'))
            match = [v for kind, d, v in pbs if d.strip() == desc.strip()]
            # Kani emits no playback test for a check whose failure does not depend on any input;
            # then any admissible value vector must reproduce it: try the other extracted vectors
            trials = match + [v for kind, d, v in pbs if d.strip() != desc.strip()] + [[0] * 8, [1] * 8]
            hname = q.split('::')[-1]
            vals, out_dev, txt_dev = None, 'not_reproduced', ''
            for cand in trials[:6]:
                out_dev, txt_dev = K.native_replay(hname, cand, 'debug')
                # an assertion of the harness is recognised by its text; a panic inside the library (unlabelled, key 'panic:...') by the
                # native run panicking at all - Kani cannot show run-time formatted messages, the texts differ by construction
                if out_dev == 'reproduced' and (desc.strip()[:40] in txt_dev or (key or '').startswith('panic:')):
                    vals = cand
                    break
            if vals is None:
                continue
            out_rel, txt_rel = K.native_replay(hname, vals, 'release')
            rec = {'property': pid, 'key': key, 'harness': q, 'check': desc, 'values': vals,
                   'replay_dev': out_dev, 'replay_release': out_rel,
                   'replay_cmd': '%s --replay <this file>' % os.path.join(VERIF, 'run_check.py'),
                   'native_output': txt_dev[-1500:], 'also_failing': [x[0] for x in lst if x[0] != q]}
            path = os.path.join(EVID, 'replay', '%s_kani_%s.json' % (pid, re.sub(r'\W+', '_', key or 'main')))
            json.dump(rec, open(path, 'w'), indent=1)
            report['counterexamples'].append({k: rec[k] for k in ('key', 'harness', 'check', 'values', 'replay_dev', 'replay_release')})
            if out_dev == 'reproduced':
                kf = [f for f in known if f['key'] == key]
                if kf:
                    known_hits.append((kf[0], path))
                else:
                    violations.append((key, desc, path))
                done = True
                break
        if not done:
            incon.append('counterexample for "%s" could not be extracted or did not reproduce natively' % lst[0][1])
    return violations, known_hits, incon


def write_evidence(pid, tier, seed, spec, report, wall, n_viol, extra_assumptions):
    os.makedirs(EVID, exist_ok=True)
    inst = report['instances']
    ok = [i for i in inst if i['status'] == 'ok']
    nontriv = [i for i in inst if i['status'] in ('ok', 'failed') and (not i.get('covers') or any(s == 'SATISFIED' for s in i['covers'].values()))]
    cov = {
        'evaluations': max(1, len(inst) + report.get('mir_queries', 0)),
        'distinct_nontrivial': len(nontriv) + report.get('mir_functions', 0),
        'rule': spec['rule'],
        'samples': (inst[:4] + report.get('mir_samples', [])[:4]) or ['none'],
        'explanation': spec.get('explanation', spec['rule']),
        'exhaustive': False,
        'engine_queries': {'kani_harness_instances': len(inst), 'kani_decided_ok': len(ok),
                           'cbmc_checks_discharged': sum(i.get('checks', 0) for i in ok),
                           'cbmc_solver_time_s': round(sum((i.get('solver_time_s') or 0) for i in inst), 1),
                           'kani_wall_s': round(report['kani_wall_s'], 1),
                           'smt_queries': report.get('mir_queries', 0), 'smt_solver_time_s': report.get('mir_time', 0.0)},
        'functions_encoded': spec.get('functions', []) + report.get('mir_function_names', []),
        'bounds': spec.get('bounds', {}),
        'outside': spec.get('outside', []),
        'witnesses_satisfied': report['witnesses'],
        'property_assertions_checked': report.get('property_assertions', 0),
        'not_decided': report['inconclusive'],
        'not_decided_best_effort_instances': report.get('not_decided_best_effort', []),
        'counterexamples': report['counterexamples'],
        'known_findings_hit': report['known'],
        'failures_of_other_properties_seen': report['other_property_failures'][:10],
        'instances': inst,
        'repo_tree_hash': K.repo_tree_hash(),
    }
    if report.get('mir'):
        cov['mir'] = report['mir']
    ev = {'property_id': pid, 'tier': tier, 'seed': seed, 'level': spec['level'], 'coverage': cov,
          'assumptions': spec.get('assumptions', []) + extra_assumptions, 'wall_s': round(wall, 1), 'violations': n_viol}
    json.dump(ev, open(os.path.join(EVID, pid + '.json'), 'w'), indent=1)


def main():
    if len(sys.argv) >= 3 and sys.argv[1] == '--replay':
        rec = json.load(open(sys.argv[2]))
        if rec.get('engine') == 'mir':
            from vlib import mirreplay
            sys.exit(mirreplay.replay(rec))
        h = rec['harness'].split('::')[-1]
        for prof in ('debug', 'release'):
            out, txt = K.native_replay(h, rec['values'], prof)
            print('== %s profile: %s' % (prof, out))
            print(txt[-2000:])
        sys.exit(0)
    pid = sys.argv[1]
    tier = sys.argv[2] if len(sys.argv) > 2 else os.environ.get('VERIF_TIER', 'quick')
    seed = int(os.environ.get('VERIF_SEED', '0') or 0)
    spec = P.PROPS[pid]
    t0 = time.time()
    report = {'instances': [], 'witnesses': {}, 'other_property_failures': [], 'kani_wall_s': 0.0,
              'counterexamples': [], 'known': [], 'inconclusive': []}
    violations, known_hits = [], []
    # cheap parts (E2) first; a confirmed violation is decisive, the remaining (expensive) parts are skipped
    parts = sorted(spec['parts'], key=lambda p: 0 if p['engine'] == 'mir' else 1)
    for part in parts:
        if tier == 'quick' and part.get('thorough_only'):
            continue
        if os.environ.get('VERIF_ONLY_ENGINE') and part['engine'] != os.environ['VERIF_ONLY_ENGINE']:
            continue      # diagnostic aid only (never used by the registered commands)
        if violations and not os.environ.get('VERIF_ALL_PARTS'):
            report['inconclusive_note'] = 'stopped after the first confirmed violation; parts not run: ' + (part.get('family') or 'mir')
            break
        try:
            if part['engine'] == 'kani':
                cands, incon = run_kani_part(pid, part, tier, seed, report)
                report['inconclusive'] += incon
                if cands:
                    v, k, inc = confirm(pid, cands, part, report)
                    violations += v
                    known_hits += k
                    report['inconclusive'] += inc
            elif part['engine'] == 'mir':
                from vlib import mirchecks
                v, k, inc = mirchecks.run_part(pid, part, tier, report, load_known())
                violations += v
                known_hits += k
                report['inconclusive'] += inc
        except Exception as e:
            # an internal error of the machinery is never a verdict about the tree: undecided (exit 2), with the evidence written
            import traceback
            report['inconclusive'].append('internal error in part %s: %s: %s [%s]' % (part.get('family') or part['engine'], type(e).__name__, e,
                                                                                   ' <- '.join(l.strip() for l in traceback.format_exc().strip().splitlines()[-6:-1:2])[:300]))
    for f, path in known_hits:
        print('KNOWN-FINDING: property=%s %s (key %s, replay %s)' % (pid, f['what'], f['key'], path))
        report['known'].append({'key': f['key'], 'what': f['what']})
    for key, desc, path in violations:
        print('VIOLATION property=%s replay=%s' % (pid, path))
        print('  ' + desc)
    for r in report['inconclusive']:
        print('INCONCLUSIVE: ' + r)
    wall = time.time() - t0
    write_evidence(pid, tier, seed, spec, report, wall, len(violations), [])
    n_ok = len([i for i in report['instances'] if i['status'] == 'ok'])
    print('%s %s: %d kani instances (%d ok), %d smt queries, %d violations, %d known findings, %d inconclusive, %.0f s' % (
        pid, tier, len(report['instances']), n_ok, report.get('mir_queries', 0), len(violations), len(known_hits),
        len(report['inconclusive']), wall))
    if violations:
        sys.exit(1)
    if report['inconclusive']:
        sys.exit(2)
    sys.exit(0)


if __name__ == '__main__':
    main()
