#!/bin/bash
# usage: runk.sh <dir> <harness> <timeout_s> [extra args]
d=$1; h=$2; t=$3; shift 3
cd $d
( ulimit -v 20000000; /usr/bin/time -f "WALL %e s MAXRSS %M KB" timeout $t env CARGO_NET_OFFLINE=true cargo kani --no-default-features --harness $h "$@" > /root/scratch/log_$h.txt 2>&1; echo "EXIT $?" >> /root/scratch/log_$h.txt )
