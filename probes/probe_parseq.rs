// appended to src/dispatch/par_seq.rs of a scratch copy (parallel + models/rayon)
#[cfg(kani)]
mod kani_probe_par {
    use super::*;
    use crate::system::{Accessor, AccessorCow, DynamicSystemData};
    pub struct DynAcc { pub reads: Vec<ResourceId>, pub writes: Vec<ResourceId> }
    impl Accessor for DynAcc {
        fn try_new() -> Option<Self> { None }
        fn reads(&self) -> Vec<ResourceId> { self.reads.clone() }
        fn writes(&self) -> Vec<ResourceId> { self.writes.clone() }
    }
    pub struct DynData;
    impl<'a> DynamicSystemData<'a> for DynData {
        type Accessor = DynAcc;
        fn setup(_: &DynAcc, _: &mut World) {}
        fn fetch(_: &DynAcc, _: &'a World) -> Self { DynData }
    }
    pub struct Leaf { acc: DynAcc }
    impl<'a> System<'a> for Leaf {
        type SystemData = DynData;
        fn run(&mut self, _: DynData) {}
        fn accessor<'b>(&'b self) -> AccessorCow<'a, 'b, Self> { AccessorCow::Ref(&self.acc) }
    }
    struct R0;
    fn any_rid() -> ResourceId { let i: u64 = kani::any(); kani::assume(i < 3); ResourceId::new_with_dynamic_id::<R0>(i) }
    fn leaf() -> (ResourceId, ResourceId, Leaf) { let (r, w) = (any_rid(), any_rid()); (r.clone(), w.clone(), Leaf { acc: DynAcc { reads: vec![r], writes: vec![w] } }) }
    // no-conflict family: must not panic at all
    #[kani::proof]
    #[kani::unwind(5)]
    fn probe_par_with_ok() {
        let (r1, w1, a) = leaf(); let (r2, w2, b) = leaf(); let (r3, w3, c) = leaf();
        kani::assume(w1 != r2 && w1 != w2 && r1 != w2);
        let p = Par::new(a).with(b);
        let c12 = w1 == r3 || w1 == w3 || r1 == w3 || w2 == r3 || w2 == w3 || r2 == w3;
        kani::assume(!c12);
        let p = p.with(c);
        std::mem::forget(p);
    }
    // conflict family: the sentinel after the call must be unreachable
    #[kani::proof]
    #[kani::unwind(5)]
    fn probe_par_with_conflict() {
        let (r1, w1, a) = leaf(); let (r2, w2, b) = leaf(); let (r3, w3, c) = leaf();
        kani::assume(w1 != r2 && w1 != w2 && r1 != w2);
        let p = Par::new(a).with(b);
        let c12 = w1 == r3 || w1 == w3 || r1 == w3 || w2 == r3 || w2 == w3 || r2 == w3;
        kani::assume(c12);
        let p = p.with(c);
        assert!(false, "VERIF C16: Par::with returned despite a conflict");
        std::mem::forget(p);
    }
}
