//! Verification model of `smallvec`: inline-only storage (no union, no heap spill).
//! Pushing beyond the inline capacity N is outside the bound (panics with a BOUND message).
use std::mem::MaybeUninit;
use std::ops::{Deref, DerefMut};
pub unsafe trait Array { type Item; fn size() -> usize; }
unsafe impl<T, const N: usize> Array for [T; N] { type Item = T; fn size() -> usize { N } }
pub struct SmallVec<A: Array> { len: usize, data: MaybeUninit<A> }
impl<A: Array> SmallVec<A> {
    #[inline] pub fn new() -> Self { SmallVec { len: 0, data: MaybeUninit::uninit() } }
    #[inline] fn p(&self) -> *const A::Item { self.data.as_ptr() as *const A::Item }
    #[inline] fn pm(&mut self) -> *mut A::Item { self.data.as_mut_ptr() as *mut A::Item }
    pub fn push(&mut self, x: A::Item) {
        if self.len >= A::size() { panic!("BOUND: smallvec model inline capacity exceeded"); }
        unsafe { self.pm().add(self.len).write(x); }
        self.len += 1;
    }
    pub fn remove(&mut self, i: usize) -> A::Item {
        assert!(i < self.len);
        unsafe {
            let x = self.pm().add(i).read();
            let mut j = i;
            while j + 1 < self.len { let y = self.pm().add(j + 1).read(); self.pm().add(j).write(y); j += 1; }
            self.len -= 1;
            x
        }
    }
    #[inline] pub fn len(&self) -> usize { self.len }
    #[inline] pub fn is_empty(&self) -> bool { self.len == 0 }
}
impl<A: Array> Drop for SmallVec<A> { fn drop(&mut self) { let mut i = 0; while i < self.len { unsafe { std::ptr::drop_in_place(self.pm().add(i)); } i += 1; } } }
impl<A: Array> Default for SmallVec<A> { fn default() -> Self { Self::new() } }
impl<A: Array> Deref for SmallVec<A> { type Target = [A::Item]; fn deref(&self) -> &[A::Item] { unsafe { std::slice::from_raw_parts(self.p(), self.len) } } }
impl<A: Array> DerefMut for SmallVec<A> { fn deref_mut(&mut self) -> &mut [A::Item] { unsafe { std::slice::from_raw_parts_mut(self.pm(), self.len) } } }
impl<A: Array> Extend<A::Item> for SmallVec<A> { fn extend<I: IntoIterator<Item = A::Item>>(&mut self, it: I) { for x in it { self.push(x); } } }
impl<A: Array> FromIterator<A::Item> for SmallVec<A> { fn from_iter<I: IntoIterator<Item = A::Item>>(it: I) -> Self { let mut s = Self::new(); s.extend(it); s } }
impl<'a, A: Array> From<&'a [A::Item]> for SmallVec<A> where A::Item: Clone { fn from(s: &'a [A::Item]) -> Self { s.iter().cloned().collect() } }
pub struct IntoIter<A: Array> { v: SmallVec<A>, pos: usize }
impl<A: Array> Iterator for IntoIter<A> { type Item = A::Item; fn next(&mut self) -> Option<A::Item> { if self.pos < self.v.len { let x = unsafe { self.v.pm().add(self.pos).read() }; self.pos += 1; Some(x) } else { None } } }
impl<A: Array> Drop for IntoIter<A> { fn drop(&mut self) { while self.pos < self.v.len { unsafe { std::ptr::drop_in_place(self.v.pm().add(self.pos)); } self.pos += 1; } self.v.len = 0; } }
impl<A: Array> IntoIterator for SmallVec<A> { type Item = A::Item; type IntoIter = IntoIter<A>; fn into_iter(self) -> IntoIter<A> { IntoIter { v: self, pos: 0 } } }
impl<'a, A: Array> IntoIterator for &'a SmallVec<A> { type Item = &'a A::Item; type IntoIter = std::slice::Iter<'a, A::Item>; fn into_iter(self) -> Self::IntoIter { self.iter() } }
impl<'a, A: Array> IntoIterator for &'a mut SmallVec<A> { type Item = &'a mut A::Item; type IntoIter = std::slice::IterMut<'a, A::Item>; fn into_iter(self) -> Self::IntoIter { self.iter_mut() } }
