// appended to src/world/mod.rs of a scratch copy
#[cfg(kani)]
mod kani_probe_world {
    use super::*;
    #[kani::proof]
    #[kani::unwind(18)]
    fn probe_world() {
        let mut w = World::empty();
        let x: u32 = kani::any();
        w.insert(x);
        w.insert(7u64);
        let a = w.fetch::<u32>();
        let b = w.fetch::<u32>();
        assert!(*a == x && *b == x);
        let c = w.fetch_mut::<u64>();
        let cell = unsafe { w.try_fetch_internal(ResourceId::new::<u32>()) }.unwrap();
        assert!(cell.try_borrow_mut().is_err());
        assert!(cell.try_borrow().is_ok());
        drop(a);
        drop(b);
        assert!(cell.try_borrow_mut().is_ok());
        assert!(*c == 7);
        drop(c);
        std::mem::forget(w);
    }
    #[kani::proof]
    #[kani::unwind(6)]
    fn probe_world_tuple() {
        let mut w = World::empty();
        w.insert(1u32);
        w.insert(7u64);
        {
            let d: (Read<u32>, Write<u64>) = w.system_data();
            let c32 = unsafe { w.try_fetch_internal(ResourceId::new::<u32>()) }.unwrap();
            let c64 = unsafe { w.try_fetch_internal(ResourceId::new::<u64>()) }.unwrap();
            assert!(c32.try_borrow_mut().is_err() && c32.try_borrow().is_ok());
            assert!(c64.try_borrow().is_err());
            drop(d);
            assert!(c32.try_borrow_mut().is_ok() && c64.try_borrow_mut().is_ok());
        }
        std::mem::forget(w);
    }
}
