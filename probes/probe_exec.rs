// appended to src/dispatch/builder.rs of a scratch copy built with --features parallel against models/rayon (needs Stage::verif_new/verif_push_group/verif_push)
#[cfg(kani)]
mod kani_probe_exec {
    use super::*;
    use crate::{system::{Accessor, AccessorCow, DynamicSystemData, RunningTime}, world::{ResourceId, World}};
    pub struct DynAcc { pub reads: Vec<ResourceId>, pub writes: Vec<ResourceId> }
    impl Accessor for DynAcc {
        fn try_new() -> Option<Self> { None }
        fn reads(&self) -> Vec<ResourceId> { self.reads.clone() }
        fn writes(&self) -> Vec<ResourceId> { self.writes.clone() }
    }
    pub struct DynData;
    impl<'a> DynamicSystemData<'a> for DynData {
        type Accessor = DynAcc;
        fn setup(_: &DynAcc, _: &mut World) {}
        fn fetch(_: &DynAcc, _: &'a World) -> Self { DynData }
    }
    static mut LOG: [(usize, usize, usize, usize); 8] = [(0, 0, 0, 0); 8];
    static mut NLOG: usize = 0;
    pub struct LogSys { acc: DynAcc, id: usize, time: RunningTime }
    impl<'a> System<'a> for LogSys {
        type SystemData = DynData;
        fn run(&mut self, _: DynData) {
            let (r, j, p) = rayon::model_position();
            unsafe { LOG[NLOG] = (self.id, r, j, p); NLOG += 1; }
        }
        fn running_time(&self) -> RunningTime { self.time }
        fn accessor<'b>(&'b self) -> AccessorCow<'a, 'b, Self> { AccessorCow::Ref(&self.acc) }
    }
    struct R0;
    fn rid(i: u64) -> ResourceId { ResourceId::new_with_dynamic_id::<R0>(i) }

    #[kani::proof]
    #[kani::unwind(6)]
    fn probe_exec() {
        let mut b = DispatcherBuilder::new();
        b.add(LogSys { acc: DynAcc { reads: vec![], writes: vec![rid(0)] }, id: 1, time: RunningTime::VeryLong }, "", &[]);
        b.add(LogSys { acc: DynAcc { reads: vec![], writes: vec![rid(1)] }, id: 2, time: RunningTime::VeryShort }, "", &[]);
        b.add(LogSys { acc: DynAcc { reads: vec![rid(1)], writes: vec![] }, id: 3, time: RunningTime::VeryShort }, "", &[]);
        b.add(LogSys { acc: DynAcc { reads: vec![], writes: vec![rid(0), rid(1)] }, id: 4, time: RunningTime::Average }, "", &[]);
        let mut d = b.build();
        let w = World::empty();
        d.dispatch_par(&w);
        unsafe {
            assert!(NLOG == 4);
            // 1 and 2 in the same region, different jobs; 3 after 2 in the same job; 4 in a later region
            assert!(LOG[0].0 == 1 && LOG[1].0 == 2 && LOG[2].0 == 3 && LOG[3].0 == 4);
            assert!(LOG[0].1 == LOG[1].1 && LOG[0].2 != LOG[1].2);
            assert!(LOG[2].1 == LOG[1].1 && LOG[2].2 == LOG[1].2);
            assert!(LOG[3].1 > LOG[0].1);
            assert!(LOG[0].3 != 0);
        }
        d.dispatch_seq(&w);
        unsafe { assert!(NLOG == 8); }
        std::mem::forget(d);
    }

    struct TlSys { id: usize }
    impl<'a> crate::system::RunNow<'a> for TlSys {
        fn run_now(&mut self, _: &'a World) { let (r, j, p) = rayon::model_position(); unsafe { LOG[NLOG] = (self.id, r, j, p); NLOG += 1; } }
        fn setup(&mut self, _: &mut World) {}
    }
    fn ls(id: usize) -> LogSys { LogSys { acc: DynAcc { reads: Vec::new(), writes: Vec::new() }, id, time: RunningTime::Average } }

    #[kani::proof]
    #[kani::unwind(6)]
    fn probe_exec_direct() {
        use crate::dispatch::stage::Stage;
        let mut st0 = Stage::verif_new();
        st0.verif_push_group(); st0.verif_push(0, Box::new(ls(1)));
        st0.verif_push_group(); st0.verif_push(1, Box::new(ls(2))); st0.verif_push(1, Box::new(ls(3)));
        let mut st1 = Stage::verif_new();
        st1.verif_push_group(); st1.verif_push(0, Box::new(ls(4)));
        let mut stages = Vec::with_capacity(2); stages.push(st0); stages.push(st1);
        let mut tl: ThreadLocal = Default::default();
        tl.push(Box::new(TlSys { id: 9 }));
        let pool = std::sync::Arc::new(rayon::ThreadPoolBuilder::new().build().unwrap());
        let pid = pool.id;
        let tp = std::sync::Arc::new(std::sync::RwLock::new(Some(pool)));
        let mut d = crate::dispatch::dispatcher::new_dispatcher(stages, tl, tp);
        let w = World::empty();
        d.dispatch(&w);
        unsafe {
            assert!(NLOG == 5);
            assert!(LOG[0].0 == 1 && LOG[1].0 == 2 && LOG[2].0 == 3 && LOG[3].0 == 4 && LOG[4].0 == 9);
            assert!(LOG[0].1 == LOG[1].1 && LOG[0].2 != LOG[1].2);
            assert!(LOG[2].1 == LOG[1].1 && LOG[2].2 == LOG[1].2);
            assert!(LOG[3].1 > LOG[0].1);
            assert!(LOG[0].3 == pid && LOG[3].3 == pid);
            assert!(LOG[4].3 == 0);
        }
        d.dispatch_seq(&w);
        unsafe { assert!(NLOG == 9); }
        std::mem::forget(d);
    }
}
