import re, collections
src=open('/root/scratch/mir/shred.mir').read()
fn_re = re.compile(r'^fn (.+?)\((.*?)\) -> (.+?) \{\n(.*?)^\}\n', re.S | re.M)
want = ['world::<impl at src/world/mod.rs:197', 'assert_same_type_id', 'builder::<impl at src/dispatch/builder.rs:105:1: 105:39>::add', 'add_batch', 'batch::<impl', 'par_seq::<impl', 'meta::<impl', 'attach_vtable', 'entry::<impl', 'setup::<impl', 'data::<impl', 'system::<impl', 'dispatcher::<impl', 'send_dispatcher::<impl', 'try_into_sendable', 'improves_balance', 'add_barrier', 'fn build']
stm = collections.Counter(); term = collections.Counter(); n=0; loops=[]
for m in fn_re.finditer(src):
    name, body = m.group(1), m.group(4)
    if not any(w in name for w in want): continue
    n+=1
    succ = {}
    for bm in re.finditer(r'^    (bb\d+)(?: \(cleanup\))?: \{\n(.*?)^    \}', body, re.S|re.M):
        lines=[l.strip().rstrip(';') for l in bm.group(2).strip().split('\n')]
        for l in lines[:-1]:
            if re.match(r'_\d+ = ', l) or re.match(r'\(.*\) = ', l) or l.startswith('(*'):
                rhs = l.split(' = ',1)[1]
                k = re.sub(r'_\d+', '_N', rhs)
                k = re.sub(r'<.*>', '<..>', k)
                k = re.sub(r'const .*', 'const ..', k)
                k = k[:40]
                stm[k]+=1
            else: stm['OTHER:'+l[:30]]+=1
        t = lines[-1]
        tk = re.sub(r'\(.*', '(', t) if '->' in t and not t.startswith('switchInt') and not t.startswith('drop') and not t.startswith('goto') and not t.startswith('assert') else t.split('(')[0].split(' ')[0]
        term['call' if '= ' in t and '->' in t else tk]+=1
        succ[bm.group(1)] = re.findall(r'bb\d+', t)
    # detect back edges (non-cleanup)
    order = {b:i for i,b in enumerate(succ)}
    if any(order.get(s,1e9) <= order[b] for b in succ for s in succ[b] if s in order and '(cleanup)' not in body.split(s+':')[0][-20:]):
        loops.append(name[:90])
print("functions in E2 scope (approx):", n)
print("terminators:", term.most_common(12))
print("statement forms:"); 
for k,v in stm.most_common(45): print("  %4d  %s" % (v,k))
print("functions with back edges:", len(loops)); print("\n".join(loops[:25]))
