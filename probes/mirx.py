"""Mini MIR symbolic executor (design-phase prototype). Callees are uninterpreted: fresh result + trace event.
Paths are enumerated at switchInt; z3 prunes infeasible discriminant choices."""
import re, sys, itertools
import z3
src = open(sys.argv[1] if len(sys.argv) > 1 else '/root/scratch/mir/shred.mir').read()
fn_re = re.compile(r'^fn (.+?)\((.*?)\) -> (.+?) \{\n(.*?)^\}\n', re.S | re.M)
FNS = {m.group(1): (m.group(2), m.group(3), m.group(4)) for m in fn_re.finditer(src)}
class Unsupported(Exception): pass
_cnt = itertools.count()
class Sym:
    def __init__(self, origin): self.origin = origin; self.id = next(_cnt); self.disc = z3.Int('d%d' % self.id); self.fields = {}
    def field(self, variant, idx):
        k = (variant, idx)
        if k not in self.fields: self.fields[k] = Sym(('field', self, variant, idx))
        return self.fields[k]
    def __repr__(self):
        o = self.origin
        if o[0] == 'call': return 'ret%d<%s>' % (self.id, o[1])
        if o[0] == 'field': return '%r.%s.%s' % (o[1], o[2], o[3])
        return '%s%d' % (o[0], self.id)
class Agg:
    def __init__(self, kind, fields): self.kind = kind; self.fields = fields
    def __repr__(self): return '%s{%s}' % (self.kind, ', '.join('%s: %r' % kv for kv in self.fields.items()))
class Const:
    def __init__(self, t): self.t = t
    def __repr__(self): return 'const(%s)' % self.t[:30]
def blocks(body):
    bbs = {}
    for m in re.finditer(r'^    (bb\d+)(?: \(cleanup\))?: \{\n(.*?)^    \}', body, re.S | re.M):
        bbs[m.group(1)] = [l.strip().rstrip(';') for l in m.group(2).strip().split('\n')]
    return bbs
def split_args(s):
    out, depth, cur = [], 0, ''
    for ch in s:
        if ch in '([{<': depth += 1
        if ch in ')]}>': depth -= 1
        if ch == ',' and depth == 0: out.append(cur.strip()); cur = ''
        else: cur += ch
    if cur.strip(): out.append(cur.strip())
    return out
def simp(name):
    name = re.sub(r"::<[^()]*?>(?=\(|$)", '', name)
    return re.sub(r'<.*>', '<..>', name) if len(name) > 80 else name
class Path:
    def __init__(self, env, trace, cond, decisions): self.env, self.trace, self.cond, self.decisions = env, trace, cond, decisions
    def fork(self): return Path(dict(self.env), list(self.trace), list(self.cond), list(self.decisions))
def read_place(p, env, place):
    place = place.strip()
    place = re.sub(r'^(no_retag )?(move|copy) ', '', place)
    m = re.match(r'^\((\(\*_\d+\)|\(_\d+ as \w+\)|_\d+)\.(\d+): .*\)$', place)   # (X.N: T) field projection with type ascription
    if m:
        base, idx = m.group(1), int(m.group(2))
        md = re.match(r'^\((.*) as (\w+)\)$', base)
        if md:
            v = read_place(p, env, md.group(1)); return v.field(md.group(2), idx) if isinstance(v, Sym) else list(v.fields.values())[idx]
        v = read_place(p, env, base)
        if isinstance(v, Agg): return list(v.fields.values())[idx]
        return v.field('', idx)
    m = re.match(r'^\(\*(.*)\)$', place)
    if m: return read_place(p, env, m.group(1))     # references are transparent at value level
    m = re.match(r'^(.*) as .* \(.*\)$', place)
    if m: return read_place(p, env, m.group(1))
    if re.match(r'^_\d+$', place):
        if place not in env: env[place] = Sym(('param', place))
        return env[place]
    if place.startswith('const '): return Const(place[6:])
    if place.startswith('<') or '::' in place: return Const(place)   # fn item passed by value
    raise Unsupported('place ' + place)
def run(fname, max_steps=400):
    args, ret, body = FNS[fname]
    bbs = blocks(body)
    done = []
    work = [(Path({}, [], [], []), 'bb0', 0)]
    while work:
        p, cur, steps = work.pop()
        if steps > max_steps: raise Unsupported('step bound')
        lines = bbs[cur]
        for st in lines[:-1]:
            if st.startswith(('StorageLive', 'StorageDead', 'nop', 'PlaceMention', 'FakeRead', 'Retag', 'AscribeUserType')): continue
            m = re.match(r'^(\(?\*?_\d+\)?(?:\.\d+)?) = (.*)$', st)
            if not m: raise Unsupported('stmt ' + st)
            lhs, rhs = m.group(1), m.group(2)
            if not re.match(r'^_\d+$', lhs): raise Unsupported('lhs ' + lhs)
            if rhs.startswith('discriminant('):
                v = read_place(p, p.env, rhs[13:-1]); p.env[lhs] = ('disc', v)
            elif rhs.startswith(('&mut ', '&raw const ', '&raw mut ')): p.env[lhs] = read_place(p, p.env, rhs.split(' ', 2 if rhs.startswith('&raw') else 1)[-1])
            elif rhs.startswith('&'): p.env[lhs] = read_place(p, p.env, rhs[1:])
            elif rhs.startswith('const '): p.env[lhs] = Const(rhs[6:])
            elif rhs.startswith(('move ', 'copy ', 'no_retag ')): p.env[lhs] = read_place(p, p.env, rhs)
            elif re.match(r'^\(.*\)$', rhs) or re.match(r'^\[.*\]$', rhs):
                p.env[lhs] = Agg('tuple', {str(i): read_place(p, p.env, a) for i, a in enumerate(split_args(rhs[1:-1]))})
            elif re.match(r'^[\w:<>\', ]+ \{.*\}$', rhs):
                kind = rhs.split(' {')[0]; inner = rhs[rhs.index('{') + 1:rhs.rindex('}')]
                p.env[lhs] = Agg(simp(kind), {a.split(':', 1)[0].strip(): read_place(p, p.env, a.split(':', 1)[1]) for a in split_args(inner)})
            elif re.match(r'^[\w:<>\', &]+::(\w+)\((.*)\)$', rhs):
                mm = re.match(r'^([\w:<>\', &]+)::(\w+)\((.*)\)$', rhs)
                p.env[lhs] = Agg('variant:' + mm.group(2), {str(i): read_place(p, p.env, a) for i, a in enumerate(split_args(mm.group(3)))})
            elif re.match(r'^[\w:<>\', &]+::(\w+)$', rhs): p.env[lhs] = Agg('variant:' + rhs.split('::')[-1], {})
            else: raise Unsupported('rvalue ' + rhs)
        t = lines[-1]
        if t == 'return': done.append(('return', p.env.get('_0'), p)); continue
        if t in ('unreachable', 'resume'): continue
        m = re.match(r'^goto -> (bb\d+)$', t)
        if m: work.append((p, m.group(1), steps + 1)); continue
        m = re.match(r'^drop\(.*\) -> \[return: (bb\d+)', t)
        if m: work.append((p, m.group(1), steps + 1)); continue
        m = re.match(r'^switchInt\((?:move|copy) (_\d+)\) -> \[(.*)\]$', t)
        if m:
            v = p.env[m.group(1)]
            arms = [a.strip().split(': ') for a in m.group(2).split(',')]
            if isinstance(v, tuple) and v[0] == 'disc' and isinstance(v[1], Sym): e = v[1].disc; who = v[1]
            elif isinstance(v, Sym): e = v.disc; who = v
            elif isinstance(v, tuple) and v[0] == 'disc' and isinstance(v[1], Agg):
                raise Unsupported('switch on aggregate')
            else: raise Unsupported('switch on %r' % (v,))
            taken = []
            for k, bb in arms:
                q = p.fork()
                c = (e == int(k)) if k != 'otherwise' else z3.And(*[e != int(x) for x in taken]) if taken else z3.BoolVal(True)
                if k != 'otherwise': taken.append(k)
                s = z3.Solver(); s.add(*q.cond, c)
                if s.check() == z3.sat and bbs[bb] != ['unreachable']:
                    q.cond.append(c); q.decisions.append((who, k)); work.append((q, bb, steps + 1))
            continue
        m = re.match(r'^(_\d+) = (.*)$', t)
        if m and ') -> ' in t:
            dst = m.group(1); rest = m.group(2)
            cut = rest.rindex(') -> '); tail = rest[cut + 5:]; call = rest[:cut + 1]
            depth = 0; j = len(call) - 1
            while j >= 0:
                if call[j] == ')': depth += 1
                elif call[j] == '(':
                    depth -= 1
                    if depth == 0: break
                j -= 1
            callee, a = call[:j], call[j + 1:-1]
            argv = [read_place(p, p.env, x) for x in split_args(a)]
            r = Sym(('call', simp(callee))); p.trace.append((simp(callee), argv, r)); p.env[dst] = r
            mm = re.match(r'^\[return: (bb\d+)', tail)
            if mm: work.append((p, mm.group(1), steps + 1))
            else: done.append(('diverge:' + simp(callee), None, p))
            continue
        raise Unsupported('terminator ' + t)
    return done
if __name__ == '__main__':
    for f in [n for n in FNS if re.search(r'world/mod.rs:197.*::(try_fetch|try_fetch_mut|try_fetch_by_id|try_fetch_mut_by_id)$', n)]:
        print('==', f.split('::')[-1])
        for outcome, val, p in run(f):
            print('  ', outcome, '| value:', val, '| decisions:', [(repr(w), k) for w, k in p.decisions])
            print('      calls:', ' ; '.join(c for c, _, _ in p.trace if 'fmt' not in c and 'type_name' not in c and 'Arguments' not in c))
