import re, sys, time
import z3
src = open('/root/scratch/mir/shred.mir').read()
# split into functions
fn_re = re.compile(r'^fn (.+?)\((.*?)\) -> (.+?) \{\n(.*?)^\}\n', re.S | re.M)
fns = [(m.group(1), m.group(2), m.group(3), m.group(4)) for m in fn_re.finditer(src)]
print("functions parsed:", len(fns))
def blocks(body):
    bbs = {}
    for m in re.finditer(r'^    (bb\d+)(?: \(cleanup\))?: \{\n(.*?)^    \}', body, re.S | re.M):
        bbs[m.group(1)] = [l.strip() for l in m.group(2).strip().split('\n')]
    return bbs
RID = z3.DeclareSort('ResourceId')
SeqR = z3.SeqSort(RID)
EV = z3.DeclareSort('Event')
SeqE = z3.SeqSort(EV)
class Unsupported(Exception): pass
def symexec(name, ret, body, kind):
    bbs = blocks(body)
    env = {}      # local -> ('seq', z3 expr) | ('ref', local) | ('val', token)
    events = []   # list of (op, type)
    cur = 'bb0'; steps = 0
    members = []
    while True:
        steps += 1
        if steps > 500: raise Unsupported('too long')
        for st in bbs[cur]:
            st = st.rstrip(';')
            m = re.match(r'(_\d+) = Vec::<world::ResourceId>::new\(\) -> \[return: (bb\d+)', st)
            if m: env[m.group(1)] = ('seq', z3.Empty(SeqR)); cur = m.group(2); break
            m = re.match(r'(_\d+) = <(\w+) as system::SystemData<\'_>>::(reads|writes)\(\) -> \[return: (bb\d+)', st)
            if m:
                c = z3.Const('%s_%s' % (m.group(3), m.group(2)), SeqR); env[m.group(1)] = ('seq', c); events.append((m.group(3), m.group(2))); cur = m.group(4); break
            m = re.match(r'(_\d+) = &mut (_\d+)$', st)
            if m: env[m.group(1)] = ('ref', m.group(2)); continue
            m = re.match(r'(_\d+) = Vec::<world::ResourceId>::append\((?:move|copy) (_\d+), (?:move|copy) (_\d+)\) -> \[return: (bb\d+)', st)
            if m:
                a = env[m.group(2)]; b = env[m.group(3)]
                assert a[0] == 'ref' and b[0] == 'ref'
                env[a[1]] = ('seq', z3.Concat(env[a[1]][1], env[b[1]][1])); env[b[1]] = ('seq', z3.Empty(SeqR)); cur = m.group(4); break
            m = re.match(r'drop\((_\d+)\) -> \[return: (bb\d+)', st)
            if m: cur = m.group(2); break
            m = re.match(r'(_\d+) = move (_\d+)$', st)
            if m: env[m.group(1)] = env[m.group(2)]; continue
            m = re.match(r'(_\d+) = <(\w+) as system::SystemData<\'_>>::(fetch)\(copy _1\) -> \[return: (bb\d+)', st)
            if m: env[m.group(1)] = ('val', 'fetched_' + m.group(2)); events.append(('fetch', m.group(2))); cur = m.group(4); break
            m = re.match(r'(_\d+) = <(\w+) as system::SystemData<\'_>>::(setup)\((?:move|copy) (_\d+)\) -> \[return: (bb\d+)', st)
            if m:
                tgt = env.get(m.group(4), ('arg', m.group(4))); events.append(('setup', m.group(2), tgt)); cur = m.group(5); break
            m = re.match(r'(_\d+) = &mut \(\*(_\d+)\)$', st)
            if m: env[m.group(1)] = ('reborrow', m.group(2)); continue
            m = re.match(r'_0 = \((.*)\)$', st)
            if m:
                parts = [p.strip() for p in m.group(1).split(',') if p.strip()]
                env['_0'] = ('tuple', [env[p.split()[1]] for p in parts]); continue
            if st == 'return': return env.get('_0'), events
            if st.startswith('_0 = const ()') or re.match(r'_\d+ = const \(\)', st): continue
            raise Unsupported(st)
        else:
            raise Unsupported('fell through ' + cur)
t0 = time.time(); q = 0; bad = 0
tuple_fns = [f for f in fns if f[0].startswith('impl_data::<impl at src/system.rs')]
print("tuple impl fns:", len(tuple_fns))
for name, args, ret, body in tuple_fns:
    kind = name.split('::')[-1]
    # member type names from where-clause are not in MIR; take from fetch return type / calls
    out, events = symexec(name, ret, body, kind)
    if kind in ('reads', 'writes'):
        tys = [e[1] for e in events]
        assert all(e[0] == kind for e in events), (name, events)     # no cross-over
        spec = z3.Empty(SeqR)
        for t in tys: spec = z3.Concat(spec, z3.Const('%s_%s' % (kind, t), SeqR))
        s = z3.Solver(); s.add(out[1] != spec); r = s.check(); q += 1
        if r != z3.unsat: bad += 1; print("VIOLATION", name, kind, r)
    elif kind == 'fetch':
        tys = re.findall(r'\w+', ret)
        assert [e[1] for e in events] == tys and all(e[0]=='fetch' for e in events), (name, events, tys)
        assert out[0] == 'tuple' and [v[1] for v in out[1]] == ['fetched_'+t for t in tys]
        q += 1
    elif kind == 'setup':
        assert all(e[0]=='setup' and e[2] in (('reborrow','_1'), ('arg','_1')) for e in events), events
        n_setup = len(events)
        q += 1
print("queries:", q, "violations:", bad, "time: %.2fs" % (time.time()-t0))
ar = {}
for name, args, ret, body in tuple_fns:
    if name.endswith('::fetch'): ar[len(re.findall(r'\w+', ret))] = 1
print("arities seen:", sorted(ar))
