// appended to src/dispatch/builder.rs of a scratch copy (needs StagesBuilder::verif_rw, see DESIGN §2)
#[cfg(kani)]
mod kani_probe_batch {
    use super::*;
    use crate::{system::{Accessor, AccessorCow, DynamicSystemData, RunningTime}, world::{ResourceId, World}, Read, Write};
    pub struct DynAcc { pub reads: Vec<ResourceId>, pub writes: Vec<ResourceId> }
    impl Accessor for DynAcc {
        fn try_new() -> Option<Self> { None }
        fn reads(&self) -> Vec<ResourceId> { self.reads.clone() }
        fn writes(&self) -> Vec<ResourceId> { self.writes.clone() }
    }
    pub struct DynData;
    impl<'a> DynamicSystemData<'a> for DynData {
        type Accessor = DynAcc;
        fn setup(_: &DynAcc, _: &mut World) {}
        fn fetch(_: &DynAcc, _: &'a World) -> Self { DynData }
    }
    pub struct SymSys { acc: DynAcc }
    impl<'a> System<'a> for SymSys {
        type SystemData = DynData;
        fn run(&mut self, _: DynData) {}
        fn accessor<'b>(&'b self) -> AccessorCow<'a, 'b, Self> { AccessorCow::Ref(&self.acc) }
    }
    #[derive(Default)] struct R0;
    #[derive(Default)] struct C0;
    #[derive(Default)] struct C1;
    fn any_rid() -> ResourceId { let i: u64 = kani::any(); kani::assume(i < 3); ResourceId::new_with_dynamic_id::<R0>(i) }
    struct Ctl;
    impl<'a, 'b, 'c> BatchController<'a, 'b, 'c> for Ctl {
        type BatchSystemData = (Read<'c, C0>, Write<'c, C1>);
        fn run(&mut self, w: &'c World, d: &mut Dispatcher<'a, 'b>) { d.dispatch(w); }
    }
    fn has(v: &[ResourceId], x: &ResourceId) -> bool { let mut f = false; for y in v { if y == x { f = true; } } f }
    #[kani::proof]
    #[kani::unwind(6)]
    fn probe_batch_union() {
        let (r, w) = (any_rid(), any_rid());
        let mut inner = DispatcherBuilder::new();
        inner.add(SymSys { acc: DynAcc { reads: vec![r.clone()], writes: vec![w.clone()] } }, "", &[]);
        let mut outer = DispatcherBuilder::new();
        outer.add_batch(Ctl, inner, "", &[]);
        let sb = &outer.stages_builder;
        let (tr, tw) = sb.verif_rw(0, 0);
        assert!(has(tr, &r) && has(tr, &ResourceId::new::<C0>()));
        assert!(has(tw, &w) && has(tw, &ResourceId::new::<C1>()));
        assert!(tr.len() <= 2 && tw.len() == 2 || r == ResourceId::new::<C0>());
        std::mem::forget(outer);
    }
}
