// appended to src/dispatch/stage.rs of a scratch copy of /repo (design-phase probe, not framework code)
#[cfg(kani)]
mod kani_probe {
    use super::*;
    use crate::system::{Accessor, AccessorCow, DynamicSystemData};

    pub struct DynAcc {
        pub reads: Vec<ResourceId>,
        pub writes: Vec<ResourceId>,
    }
    impl Accessor for DynAcc {
        fn try_new() -> Option<Self> { None }
        fn reads(&self) -> Vec<ResourceId> { self.reads.clone() }
        fn writes(&self) -> Vec<ResourceId> { self.writes.clone() }
    }
    pub struct DynData;
    impl<'a> DynamicSystemData<'a> for DynData {
        type Accessor = DynAcc;
        fn setup(_: &DynAcc, _: &mut World) {}
        fn fetch(_: &DynAcc, _: &'a World) -> Self { DynData }
    }
    pub struct SymSys { acc: DynAcc, time: RunningTime }
    impl<'a> System<'a> for SymSys {
        type SystemData = DynData;
        fn run(&mut self, _: DynData) {}
        fn running_time(&self) -> RunningTime { self.time }
        fn accessor<'b>(&'b self) -> AccessorCow<'a, 'b, Self> { AccessorCow::Ref(&self.acc) }
    }
    struct R0;
    fn rid(i: u64) -> ResourceId { ResourceId::new_with_dynamic_id::<R0>(i) }
    fn any_rid() -> ResourceId { let i: u64 = kani::any(); kani::assume(i < 3); rid(i) }
    fn any_time() -> RunningTime {
        let t: u8 = kani::any();
        kani::assume(t >= 1 && t <= 5);
        match t { 1 => RunningTime::VeryShort, 2 => RunningTime::Short, 3 => RunningTime::Average, 4 => RunningTime::Long, _ => RunningTime::VeryLong }
    }

    // (a) find_conflict on a concrete 1x2x1 shape, symbolic contents
    #[kani::proof]
    #[kani::unwind(4)]
    fn probe_a_find_conflict() {
        let ids: Vec<GroupVec<ArrayVec<SystemId, MAX_SYSTEMS_PER_GROUP>>> = {
            let mut st = GroupVec::new();
            let mut g0 = ArrayVec::new(); g0.push(SystemId(0));
            let mut g1 = ArrayVec::new(); g1.push(SystemId(1));
            st.push(g0); st.push(g1);
            vec![st]
        };
        let r0 = any_rid(); let r1 = any_rid(); let w0 = any_rid(); let w1 = any_rid();
        let reads: Vec<GroupVec<SmallVec<[ResourceId; 12]>>> = {
            let mut st = GroupVec::new();
            let mut a = SmallVec::new(); a.push(r0.clone());
            let mut b = SmallVec::new(); b.push(r1.clone());
            st.push(a); st.push(b); vec![st]
        };
        let writes: Vec<GroupVec<SmallVec<[ResourceId; 10]>>> = {
            let mut st = GroupVec::new();
            let mut a = SmallVec::new(); a.push(w0.clone());
            let mut b = SmallVec::new(); b.push(w1.clone());
            st.push(a); st.push(b); vec![st]
        };
        let nr = [any_rid()];
        let nw = [any_rid()];
        let dep: SmallVec<[SystemId; 4]> = SmallVec::new();
        let c = StagesBuilder::find_conflict(&ids, &reads, &writes, 0, &nr, &nw, &dep);
        let c0 = nw[0] == r0 || nw[0] == w0 || nr[0] == w0;
        let c1 = nw[0] == r1 || nw[0] == w1 || nr[0] == w1;
        let exp = match (c0, c1) { (false, false) => Conflict::None, (true, false) => Conflict::Single(0), (false, true) => Conflict::Single(1), _ => Conflict::Multiple };
        assert!(c == exp);
    }

    // (b) one insert into empty
    #[kani::proof]
    #[kani::unwind(4)]
    fn probe_b_insert1() {
        let mut b: StagesBuilder = Default::default();
        b.insert(SmallVec::new(), SystemId(0), SymSys { acc: DynAcc { reads: vec![any_rid()], writes: vec![any_rid()] }, time: any_time() });
        assert!(b.ids.len() == 1);
        std::mem::forget(b);
    }

    // (c) two inserts
    #[kani::proof]
    #[kani::unwind(4)]
    fn probe_c_insert2() {
        let mut b: StagesBuilder = Default::default();
        b.insert(SmallVec::new(), SystemId(0), SymSys { acc: DynAcc { reads: vec![any_rid()], writes: vec![any_rid()] }, time: any_time() });
        b.insert(SmallVec::new(), SystemId(1), SymSys { acc: DynAcc { reads: vec![any_rid()], writes: vec![any_rid()] }, time: any_time() });
        assert!(b.ids.len() <= 2);
        std::mem::forget(b);
    }

    // (d) sort + dedup only
    #[kani::proof]
    #[kani::unwind(4)]
    fn probe_d_sort() {
        let mut v = vec![any_rid(), any_rid()];
        v.sort(); v.dedup();
        assert!(v.len() >= 1);
    }

    #[kani::proof]
    #[kani::unwind(4)]
    fn probe_e_pushes() {
        let mut b: StagesBuilder = Default::default();
        b.add_stage();
        b.add_group(0);
        let sys = SymSys { acc: DynAcc { reads: vec![any_rid()], writes: vec![any_rid()] }, time: any_time() };
        let reads = sys.acc.reads();
        let writes = sys.acc.writes();
        b.ids[0][0].push(SystemId(0));
        b.reads[0][0].extend(reads);
        b.running_time[0][0] += sys.time as u8;
        b.stages[0].groups[0].push(Box::new(sys));
        b.writes[0][0].extend(writes);
        assert!(b.ids.len() == 1);
        std::mem::forget(b);
    }

    #[kani::proof]
    #[kani::unwind(4)]
    fn probe_f_target_empty() {
        let b: StagesBuilder = Default::default();
        let r = vec![any_rid()]; let w = vec![any_rid()];
        let mut dep: SmallVec<[SystemId; 4]> = SmallVec::new();
        let t = b.insertion_target(&r, &w, &mut dep, any_time());
        assert!(matches!(t, InsertionTarget::NewStage));
        std::mem::forget(b);
    }

    #[kani::proof]
    #[kani::unwind(4)]
    fn probe_g_sort1() {
        let sys = SymSys { acc: DynAcc { reads: vec![any_rid()], writes: vec![any_rid()] }, time: any_time() };
        let mut reads = sys.accessor().reads();
        reads.sort(); reads.dedup();
        assert!(reads.len() == 1);
        std::mem::forget(sys);
    }

    #[kani::proof]
    #[kani::unwind(4)]
    fn probe_e1() {
        let mut b: StagesBuilder = Default::default();
        b.add_stage();
        b.add_group(0);
        assert!(b.ids.len() == 1);
        std::mem::forget(b);
    }
    #[kani::proof]
    #[kani::unwind(4)]
    fn probe_e2() {
        let mut b: StagesBuilder = Default::default();
        b.add_stage();
        b.add_group(0);
        b.ids[0][0].push(SystemId(0));
        b.running_time[0][0] += any_time() as u8;
        assert!(b.ids.len() == 1);
        std::mem::forget(b);
    }
    #[kani::proof]
    #[kani::unwind(4)]
    fn probe_e3() {
        let mut b: StagesBuilder = Default::default();
        b.add_stage();
        b.add_group(0);
        b.reads[0][0].extend(vec![any_rid()]);
        assert!(b.ids.len() == 1);
        std::mem::forget(b);
    }
    #[kani::proof]
    #[kani::unwind(4)]
    fn probe_e4() {
        let mut b: StagesBuilder = Default::default();
        b.add_stage();
        b.add_group(0);
        let sys = SymSys { acc: DynAcc { reads: vec![any_rid()], writes: vec![any_rid()] }, time: any_time() };
        b.stages[0].groups[0].push(Box::new(sys));
        assert!(b.ids.len() == 1);
        std::mem::forget(b);
    }

    fn capb<'a>(n: usize) -> StagesBuilder<'a> {
        StagesBuilder { barrier: 0, ids: Vec::with_capacity(n), reads: Vec::with_capacity(n), running_time: Vec::with_capacity(n), stages: Vec::with_capacity(n), writes: Vec::with_capacity(n) }
    }
    #[kani::proof]
    #[kani::unwind(4)]
    fn probe_h2() {
        let mut b = capb(3);
        b.add_stage();
        b.add_group(0);
        b.ids[0][0].push(SystemId(0));
        b.running_time[0][0] += any_time() as u8;
        assert!(b.ids.len() == 1);
        std::mem::forget(b);
    }
    #[kani::proof]
    #[kani::unwind(4)]
    fn probe_h_insert1() {
        let mut b = capb(3);
        b.insert(SmallVec::new(), SystemId(0), SymSys { acc: DynAcc { reads: vec![any_rid()], writes: vec![any_rid()] }, time: any_time() });
        assert!(b.ids.len() == 1);
        std::mem::forget(b);
    }
    #[kani::proof]
    #[kani::unwind(4)]
    fn probe_h_insert2() {
        let mut b = capb(3);
        b.insert(SmallVec::new(), SystemId(0), SymSys { acc: DynAcc { reads: vec![any_rid()], writes: vec![any_rid()] }, time: any_time() });
        b.insert(SmallVec::new(), SystemId(1), SymSys { acc: DynAcc { reads: vec![any_rid()], writes: vec![any_rid()] }, time: any_time() });
        assert!(b.ids.len() <= 2);
        std::mem::forget(b);
    }

    #[kani::proof]
    #[kani::unwind(4)]
    fn probe_i_target_after1() {
        let mut b = capb(3);
        b.insert(SmallVec::new(), SystemId(0), SymSys { acc: DynAcc { reads: vec![any_rid()], writes: vec![any_rid()] }, time: any_time() });
        let r = vec![any_rid()]; let w = vec![any_rid()];
        let mut dep: SmallVec<[SystemId; 4]> = SmallVec::new();
        if kani::any() { dep.push(SystemId(0)); }
        let t = b.insertion_target(&r, &w, &mut dep, any_time());
        let confl = w[0] == b.reads[0][0][0] || w[0] == b.writes[0][0][0] || r[0] == b.writes[0][0][0];
        match t {
            InsertionTarget::Stage(s) => assert!(s == 0 && !confl),
            InsertionTarget::Group(_, _) => assert!(false),
            InsertionTarget::NewStage => assert!(confl || true),
        }
        std::mem::forget(b);
    }

    #[kani::proof]
    #[kani::unwind(4)]
    fn probe_j_insert2_conc() {
        let mut b = capb(3);
        b.insert(SmallVec::new(), SystemId(0), SymSys { acc: DynAcc { reads: vec![any_rid()], writes: vec![any_rid()] }, time: any_time() });
        b.insert(SmallVec::new(), SystemId(1), SymSys { acc: DynAcc { reads: vec![], writes: vec![] }, time: RunningTime::Short });
        assert!(b.ids.len() == 1 && b.ids[0].len() == 2);
        std::mem::forget(b);
    }

    // pre-state: S stages x G groups, each group with L ids, 1 read + 1 write (symbolic), symbolic times
    fn pre<'a>(s_n: usize, g_n: usize, l_n: usize) -> StagesBuilder<'a> {
        let mut b = capb(s_n + 1);
        let mut id = 0usize;
        let mut s = 0;
        while s < s_n {
            b.add_stage();
            let mut g = 0;
            while g < g_n {
                b.add_group(s);
                let mut l = 0;
                while l < l_n { b.ids[s][g].push(SystemId(id)); id += 1; l += 1; }
                b.reads[s][g].push(any_rid());
                b.writes[s][g].push(any_rid());
                let t: u8 = kani::any(); kani::assume(t >= 1 && t <= 20);
                b.running_time[s][g] = t;
                g += 1;
            }
            s += 1;
        }
        b
    }
    fn confl(b: &StagesBuilder, s: usize, g: usize, r: &[ResourceId], w: &[ResourceId]) -> bool {
        let mut c = false;
        for x in w { for y in b.reads[s][g].iter() { if x == y { c = true; } } for y in b.writes[s][g].iter() { if x == y { c = true; } } }
        for x in r { for y in b.writes[s][g].iter() { if x == y { c = true; } } }
        c
    }
    #[kani::proof]
    #[kani::unwind(5)]
    fn probe_k_step() {
        let mut b = pre(2, 2, 2);
        let bar: usize = kani::any(); kani::assume(bar <= 2); b.barrier = bar;
        let r = vec![any_rid()]; let w = vec![any_rid()];
        let mut dep: SmallVec<[SystemId; 4]> = SmallVec::new();
        let d0: usize = kani::any(); kani::assume(d0 < 8);
        if kani::any() { dep.push(SystemId(d0)); }
        let dep0 = dep.clone();
        let t = b.insertion_target(&r, &w, &mut dep, any_time());
        match t {
            InsertionTarget::Stage(s) => {
                assert!(s >= bar && s < 2);
                assert!(!confl(&b, s, 0, &r, &w) && !confl(&b, s, 1, &r, &w));
                for d in dep0.iter() { assert!(d.0 / 4 < s); }
            }
            InsertionTarget::Group(s, g) => {
                assert!(s >= bar && s < 2 && g < 2);
                assert!(!confl(&b, s, 1 - g, &r, &w));
                for d in dep0.iter() { assert!(d.0 / 4 < s || (d.0 / 4 == s && (d.0 % 4) / 2 == g)); }
            }
            InsertionTarget::NewStage => {}
        }
        std::mem::forget(b);
    }

    fn step_shape(s_n: usize, g_n: usize, l_n: usize, bar: usize, with_dep: bool) {
        let mut b = pre(s_n, g_n, l_n);
        b.barrier = bar;
        let r = vec![any_rid()]; let w = vec![any_rid()];
        let mut dep: SmallVec<[SystemId; 4]> = SmallVec::new();
        let d0: usize = kani::any(); kani::assume(d0 < s_n * g_n * l_n);
        if with_dep { dep.push(SystemId(d0)); }
        let per_stage = g_n * l_n;
        let t = b.insertion_target(&r, &w, &mut dep, any_time());
        match t {
            InsertionTarget::Stage(s) => {
                assert!(s >= bar && s < s_n);
                let mut g = 0; while g < g_n { assert!(!confl(&b, s, g, &r, &w)); g += 1; }
                if with_dep { assert!(d0 / per_stage < s); }
            }
            InsertionTarget::Group(s, g) => {
                assert!(s >= bar && s < s_n && g < g_n);
                let mut h = 0; while h < g_n { if h != g { assert!(!confl(&b, s, h, &r, &w)); } h += 1; }
                if with_dep { assert!(d0 / per_stage < s || (d0 / per_stage == s && (d0 % per_stage) / l_n == g)); }
            }
            InsertionTarget::NewStage => {}
        }
        std::mem::forget(b);
    }
    #[kani::proof] #[kani::unwind(4)] fn probe_s121() { step_shape(1, 2, 1, 0, true); }
    #[kani::proof] #[kani::unwind(4)] fn probe_s211() { step_shape(2, 1, 1, 0, true); }
    #[kani::proof] #[kani::unwind(4)] fn probe_s221() { step_shape(2, 2, 1, 0, true); }
    #[kani::proof] #[kani::unwind(4)] fn probe_s122() { step_shape(1, 2, 2, 0, true); }
    #[kani::proof] #[kani::unwind(4)] fn probe_s221n() { step_shape(2, 2, 1, 1, false); }

    #[kani::proof]
    #[kani::unwind(4)]
    fn probe_c10() {
        // shape 2x1x1: stage0 = {id0}, stage1 = {id1}
        let mut b = pre(2, 1, 1);
        let bar: usize = 1; b.barrier = bar;
        let r = vec![any_rid()]; let w = vec![any_rid()];
        let mut dep: SmallVec<[SystemId; 4]> = SmallVec::new();
        let d0: usize = kani::any(); kani::assume(d0 < 2);
        let with_dep: bool = true;
        if with_dep { dep.push(SystemId(d0)); }
        let t = b.insertion_target(&r, &w, &mut dep, any_time());
        let ts = match t { InsertionTarget::Stage(s) => s, InsertionTarget::Group(s, _) => s, InsertionTarget::NewStage => 2 };
        assert!(ts >= bar);
        let mut sp = bar;
        while sp < ts {
            let forced = confl(&b, sp, 0, &r, &w) || (with_dep && d0 >= sp);
            assert!(forced, "VERIF C10: skipped stage without a forcing system");
            sp += 1;
        }
        std::mem::forget(b);
    }

    struct R1;
    fn any_rid1() -> ResourceId { let i: u64 = kani::any(); kani::assume(i < 3); ResourceId::new_with_dynamic_id::<R1>(i) }
    fn pre1<'a>(s_n: usize, g_n: usize) -> StagesBuilder<'a> {
        let mut b = capb(s_n + 1);
        let mut id = 0usize; let mut s = 0;
        while s < s_n { b.add_stage(); let mut g = 0;
            while g < g_n { b.add_group(s);
                b.ids[s][g].push(SystemId(id)); id += 1;
                b.stages[s].groups[g].push(Box::new(SymSys { acc: DynAcc { reads: Vec::new(), writes: Vec::new() }, time: RunningTime::Short }));
                b.reads[s][g].push(any_rid1()); b.writes[s][g].push(any_rid1());
                let t: u8 = kani::any(); kani::assume(t >= 1 && t <= 5); b.running_time[s][g] = t;
                g += 1; }
            s += 1; }
        b
    }
    #[kani::proof]
    #[kani::unwind(5)]
    fn probe_commit_stage() {
        let mut b = pre1(1, 2);
        let (r0, r1, w0) = (any_rid(), any_rid(), any_rid());
        let t = any_time();
        b.insert(SmallVec::new(), SystemId(9), SymSys { acc: DynAcc { reads: vec![r0.clone(), r1.clone()], writes: vec![w0.clone()] }, time: t });
        assert!(b.ids.len() == 1 && b.ids[0].len() == 3 && b.reads[0].len() == 3 && b.writes[0].len() == 3 && b.running_time[0].len() == 3 && b.stages[0].groups.len() == 3);
        assert!(b.ids[0][2].len() == 1 && b.ids[0][2][0] == SystemId(9) && b.stages[0].groups[2].len() == 1);
        assert!(b.ids[0][0].len() == 1 && b.ids[0][1].len() == 1 && b.stages[0].groups[0].len() == 1 && b.stages[0].groups[1].len() == 1);
        assert!(b.reads[0][2].iter().any(|x| *x == r0) && b.reads[0][2].iter().any(|x| *x == r1));
        assert!(b.reads[0][2].iter().all(|x| *x == r0 || *x == r1));
        assert!(b.writes[0][2].len() == 1 && b.writes[0][2][0] == w0);
        assert!(b.running_time[0][2] == t as u8);
        std::mem::forget(b);
    }

    #[kani::proof]
    #[kani::unwind(5)]
    fn probe_commit_newstage() {
        let mut b = pre1(1, 2);
        b.barrier = 1;
        let (r0, r1, w0) = (any_rid(), any_rid(), any_rid());
        let t = any_time();
        let mut dep: SmallVec<[SystemId; 4]> = SmallVec::new();
        let d0: usize = kani::any(); kani::assume(d0 < 2); dep.push(SystemId(d0));
        b.insert(dep, SystemId(9), SymSys { acc: DynAcc { reads: vec![r0.clone(), r1.clone()], writes: vec![w0.clone()] }, time: t });
        assert!(b.ids.len() == 2 && b.reads.len() == 2 && b.writes.len() == 2 && b.running_time.len() == 2 && b.stages.len() == 2);
        assert!(b.ids[1].len() == 1 && b.ids[1][0].len() == 1 && b.ids[1][0][0] == SystemId(9) && b.stages[1].groups.len() == 1 && b.stages[1].groups[0].len() == 1);
        assert!(b.ids[0].len() == 2 && b.ids[0][0].len() == 1 && b.ids[0][1].len() == 1 && b.stages[0].groups[0].len() == 1 && b.stages[0].groups[1].len() == 1);
        assert!(b.reads[1][0].iter().any(|x| *x == r0) && b.reads[1][0].iter().any(|x| *x == r1));
        assert!(b.reads[1][0].iter().all(|x| *x == r0 || *x == r1));
        assert!(b.writes[1][0].len() == 1 && b.writes[1][0][0] == w0);
        assert!(b.running_time[1][0] == t as u8);
        std::mem::forget(b);
    }
}
