use shred::*;
use std::sync::{atomic::{AtomicUsize, Ordering}, Arc};

struct S;
impl<'a> System<'a> for S { type SystemData = (); fn run(&mut self, _: ()) {} }

#[test]
fn c10_dep_before_barrier() {
    // a, barrier, b, c(dep a): c is compatible with b -> should share b's stage
    let d = DispatcherBuilder::new()
        .with(S, "a", &[])
        .with_barrier()
        .with(S, "b", &[])
        .with(S, "c", &["a"])
        .with(S, "d", &["a"])
        .build();
    println!("C10 dep-before-barrier: max_threads={}", d.max_threads());
    let b = DispatcherBuilder::new().with(S, "a", &[]).with_barrier().with(S, "b", &[]).with(S, "c", &["a"]).with(S, "d", &["a"]);
    println!("{:?}", b);
}
#[test]
fn c10_dup_dep() {
    let b = DispatcherBuilder::new().with(S, "a", &[]).with(S, "b", &[]).with(S, "c", &["a", "a"]).with(S, "d", &["a"]);
    println!("C10 dup dep:\n{:?}", b);
}
#[test]
fn c20_unnamed_print() {
    let b = DispatcherBuilder::new().with(S, "", &[]);
    let r = std::panic::catch_unwind(std::panic::AssertUnwindSafe(|| format!("{:?}", b)));
    println!("C20 unnamed print panics: {}", r.is_err());
}
struct D(Arc<AtomicUsize>);
impl<'a> System<'a> for D { type SystemData = (); fn run(&mut self, _: ()) {} fn dispose(self, _: &mut World) { self.0.fetch_add(1, Ordering::SeqCst); } }
struct Ctl;
impl<'a, 'b> BatchController<'a, 'b, '_> for Ctl { type BatchSystemData = (); fn run(&mut self, w: &World, d: &mut Dispatcher<'a, 'b>) { d.dispatch(w); } }
#[test]
fn c13_batch_dispose() {
    let n = Arc::new(AtomicUsize::new(0));
    let d = DispatcherBuilder::new().with(D(n.clone()), "o", &[]).with_batch(Ctl, DispatcherBuilder::new().with(D(n.clone()), "i", &[]), "b", &[]).build();
    let mut w = World::empty();
    d.dispose(&mut w);
    println!("C13 dispose count (expect 2): {}", n.load(Ordering::SeqCst));
}
struct TL(std::thread::ThreadId, Arc<AtomicUsize>, std::rc::Rc<()>);
impl<'a> RunNow<'a> for TL { fn run_now(&mut self, _: &'a World) { if std::thread::current().id() != self.0 { self.1.fetch_add(1, Ordering::SeqCst); } } fn setup(&mut self, _: &mut World) {} }
#[test]
fn c12_kf1() {
    let bad = Arc::new(AtomicUsize::new(0));
    let me = std::thread::current().id();
    let inner = DispatcherBuilder::new().with(S, "i", &[]).with_thread_local(TL(me, bad.clone(), std::rc::Rc::new(())));
    let mut d = DispatcherBuilder::new().with(S, "x", &[]).with_batch(Ctl, inner, "b", &[]).build();
    let w = World::empty();
    for _ in 0..50 { d.dispatch(&w); }
    println!("C12 KF1 thread-local ran off the calling thread {} times of 50", bad.load(Ordering::SeqCst));
}
