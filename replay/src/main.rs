//! replay <harness> <v0> <v1> ...   — runs one harness natively with the solver's values.
//! exit 0: harness ran to its end (counterexample NOT reproduced)
//! exit 101 (panic): an assertion of the harness or a panic of the real code reproduced
//! exit 3: value vector exhausted; exit 4: values violate a harness assumption; exit 5: usage
use shred_verif_kani as h;

fn main() {
    let args: Vec<String> = std::env::args().collect();
    if args.len() < 2 {
        eprintln!("usage: replay <harness> [values...] | replay --list");
        std::process::exit(5);
    }
    if args[1] == "--list" {
        for (n, _) in h::registry() {
            println!("{}", n);
        }
        return;
    }
    let vals: Vec<u64> = args[2..].iter().map(|s| s.parse::<u64>().expect("u64 value")).collect();
    let f = match h::registry().into_iter().find(|(n, _)| *n == args[1]) {
        Some((_, f)) => f,
        None => {
            eprintln!("unknown harness {}", args[1]);
            std::process::exit(5);
        }
    };
    h::sym::replay_load(vals);
    f();
    let (used, total) = h::sym::replay_consumed();
    println!("REPLAY-END: harness returned normally ({} of {} values consumed)", used, total);
}
