//! C20: formatting a builder never panics, unnamed systems get a placeholder, every system is listed once.
use shred::{DispatcherBuilder, System};
struct S;
impl<'a> System<'a> for S {
    type SystemData = ();
    fn run(&mut self, _: ()) {}
}
#[test]
fn print_unnamed_does_not_panic_and_lists_every_system() {
    let mut b = DispatcherBuilder::new();
    b.add(S, "", &[]);
    b.add(S, "a b-c/d", &[]);
    b.add(S, "", &[]);
    let text = format!("{:?}", b);
    let lines: Vec<&str> = text.lines().filter(|l| l.starts_with("\t\t\t")).collect();
    assert_eq!(lines.len(), 3, "{}", text);
    assert!(text.contains("a_b_c_d"), "{}", text);
}
