//! C13: dispose reaches systems inside a batch.
use shred::{BatchController, Dispatcher, DispatcherBuilder, System, World};
use std::sync::atomic::{AtomicUsize, Ordering::SeqCst};
static DISPOSED: AtomicUsize = AtomicUsize::new(0);
struct S;
impl<'a> System<'a> for S {
    type SystemData = ();
    fn run(&mut self, _: ()) {}
    fn dispose(self, _: &mut World) {
        DISPOSED.fetch_add(1, SeqCst);
    }
}
struct Ctl;
impl<'a, 'b, 'c> BatchController<'a, 'b, 'c> for Ctl {
    type BatchSystemData = ();
    fn run(&mut self, w: &'c World, d: &mut Dispatcher<'a, 'b>) {
        d.dispatch(w);
    }
}
#[test]
fn dispose_reaches_batched_systems() {
    let inner = DispatcherBuilder::new().with(S, "i", &[]);
    let d = DispatcherBuilder::new().with(S, "o", &[]).with_batch(Ctl, inner, "b", &[]).build();
    let mut w = World::empty();
    d.dispose(&mut w);
    assert_eq!(DISPOSED.load(SeqCst), 2);
}
