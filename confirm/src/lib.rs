// see tests/
