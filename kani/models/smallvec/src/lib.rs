//! Verification model of `smallvec`: a plain Vec-backed sequence with the API subset shred uses.
use std::ops::{Deref, DerefMut};
pub unsafe trait Array { type Item; fn size() -> usize; }
unsafe impl<T, const N: usize> Array for [T; N] { type Item = T; fn size() -> usize { N } }
pub struct SmallVec<A: Array> { v: Vec<A::Item> }
impl<A: Array> SmallVec<A> {
    #[inline] pub fn new() -> Self { SmallVec { v: Vec::with_capacity(A::size()) } }
    #[inline] pub fn push(&mut self, x: A::Item) { self.v.push(x) }
    #[inline] pub fn remove(&mut self, i: usize) -> A::Item { self.v.remove(i) }
    #[inline] pub fn len(&self) -> usize { self.v.len() }
    #[inline] pub fn is_empty(&self) -> bool { self.v.is_empty() }
    #[inline] pub fn pop(&mut self) -> Option<A::Item> { self.v.pop() }
    #[inline] pub fn clear(&mut self) { self.v.clear() }
    #[inline] pub fn as_slice(&self) -> &[A::Item] { &self.v }
    #[inline] pub fn into_vec(self) -> Vec<A::Item> { self.v }
}
impl<A: Array> Default for SmallVec<A> { fn default() -> Self { Self::new() } }
impl<A: Array> Deref for SmallVec<A> { type Target = [A::Item]; fn deref(&self) -> &[A::Item] { &self.v } }
impl<A: Array> DerefMut for SmallVec<A> { fn deref_mut(&mut self) -> &mut [A::Item] { &mut self.v } }
impl<A: Array> Extend<A::Item> for SmallVec<A> {
    fn extend<I: IntoIterator<Item = A::Item>>(&mut self, it: I) { for x in it { self.v.push(x); } }
}
impl<A: Array> FromIterator<A::Item> for SmallVec<A> {
    fn from_iter<I: IntoIterator<Item = A::Item>>(it: I) -> Self { let mut s = Self::new(); s.extend(it); s }
}
impl<'a, A: Array> From<&'a [A::Item]> for SmallVec<A> where A::Item: Clone {
    fn from(s: &'a [A::Item]) -> Self { SmallVec { v: s.to_vec() } }
}
impl<A: Array> IntoIterator for SmallVec<A> { type Item = A::Item; type IntoIter = std::vec::IntoIter<A::Item>; fn into_iter(self) -> Self::IntoIter { self.v.into_iter() } }
impl<'a, A: Array> IntoIterator for &'a SmallVec<A> { type Item = &'a A::Item; type IntoIter = std::slice::Iter<'a, A::Item>; fn into_iter(self) -> Self::IntoIter { self.v.iter() } }
impl<'a, A: Array> IntoIterator for &'a mut SmallVec<A> { type Item = &'a mut A::Item; type IntoIter = std::slice::IterMut<'a, A::Item>; fn into_iter(self) -> Self::IntoIter { self.v.iter_mut() } }
impl<A: Array> Clone for SmallVec<A> where A::Item: Clone { fn clone(&self) -> Self { SmallVec { v: self.v.clone() } } }
impl<A: Array> std::fmt::Debug for SmallVec<A> where A::Item: std::fmt::Debug { fn fmt(&self, f: &mut std::fmt::Formatter) -> std::fmt::Result { self.v.fmt(f) } }
#[macro_export]
macro_rules! smallvec { ($($x:expr),* $(,)?) => {{ let mut s = $crate::SmallVec::new(); $( s.push($x); )* s }}; }
