//! Verification model of `smallvec`: a plain Vec-backed sequence with the API subset shred uses.
use std::ops::{Deref, DerefMut};
pub unsafe trait Array { type Item; fn size() -> usize; }
unsafe impl<T, const N: usize> Array for [T; N] { type Item = T; fn size() -> usize { N } }
pub struct SmallVec<A: Array> { v: Vec<A::Item> }
impl<A: Array> SmallVec<A> {
    #[inline] pub fn new() -> Self { SmallVec { v: Vec::with_capacity(A::size()) } }
    #[inline] pub fn push(&mut self, x: A::Item) { self.v.push(x) }
    #[inline] pub fn remove(&mut self, i: usize) -> A::Item { self.v.remove(i) }
    #[inline] pub fn len(&self) -> usize { self.v.len() }
    #[inline] pub fn is_empty(&self) -> bool { self.v.is_empty() }
    #[inline] pub fn pop(&mut self) -> Option<A::Item> { self.v.pop() }
    #[inline] pub fn clear(&mut self) { self.v.clear() }
    #[inline] pub fn as_slice(&self) -> &[A::Item] { &self.v }
    #[inline] pub fn into_vec(self) -> Vec<A::Item> { self.v }
    #[inline] pub fn with_capacity(n: usize) -> Self { SmallVec { v: Vec::with_capacity(n) } }
    #[inline] pub fn from_vec(v: Vec<A::Item>) -> Self { SmallVec { v } }
    #[inline] pub fn as_mut_slice(&mut self) -> &mut [A::Item] { &mut self.v }
    #[inline] pub fn capacity(&self) -> usize { self.v.capacity() }
    #[inline] pub fn inline_size(&self) -> usize { A::size() }
    #[inline] pub fn spilled(&self) -> bool { self.v.len() > A::size() }
    #[inline] pub fn insert(&mut self, i: usize, x: A::Item) { self.v.insert(i, x) }
    #[inline] pub fn swap_remove(&mut self, i: usize) -> A::Item { self.v.swap_remove(i) }
    #[inline] pub fn truncate(&mut self, n: usize) { self.v.truncate(n) }
    #[inline] pub fn retain<F: FnMut(&mut A::Item) -> bool>(&mut self, mut f: F) { self.v.retain_mut(|x| f(x)) }
    #[inline] pub fn dedup(&mut self) where A::Item: PartialEq { self.v.dedup() }
    #[inline] pub fn dedup_by_key<K: PartialEq, F: FnMut(&mut A::Item) -> K>(&mut self, f: F) { self.v.dedup_by_key(f) }
    #[inline] pub fn dedup_by<F: FnMut(&mut A::Item, &mut A::Item) -> bool>(&mut self, f: F) { self.v.dedup_by(f) }
    #[inline] pub fn append<B: Array<Item = A::Item>>(&mut self, other: &mut SmallVec<B>) { self.v.append(&mut other.v) }
    #[inline] pub fn extend_from_slice(&mut self, s: &[A::Item]) where A::Item: Clone { self.v.extend_from_slice(s) }
    #[inline] pub fn drain<R: std::ops::RangeBounds<usize>>(&mut self, r: R) -> std::vec::Drain<'_, A::Item> { self.v.drain(r) }
    #[inline] pub fn reserve(&mut self, n: usize) { self.v.reserve(n) }
    #[inline] pub fn shrink_to_fit(&mut self) {}
    #[inline] pub fn resize(&mut self, n: usize, x: A::Item) where A::Item: Clone { self.v.resize(n, x) }
}
impl<A: Array> PartialEq for SmallVec<A> where A::Item: PartialEq { fn eq(&self, o: &Self) -> bool { self.v == o.v } }
impl<A: Array> Eq for SmallVec<A> where A::Item: Eq {}
impl<A: Array> From<Vec<A::Item>> for SmallVec<A> { fn from(v: Vec<A::Item>) -> Self { SmallVec { v } } }
impl<A: Array> AsRef<[A::Item]> for SmallVec<A> { fn as_ref(&self) -> &[A::Item] { &self.v } }
impl<A: Array> std::borrow::Borrow<[A::Item]> for SmallVec<A> { fn borrow(&self) -> &[A::Item] { &self.v } }
impl<A: Array> Default for SmallVec<A> { fn default() -> Self { Self::new() } }
impl<A: Array> Deref for SmallVec<A> { type Target = [A::Item]; fn deref(&self) -> &[A::Item] { &self.v } }
impl<A: Array> DerefMut for SmallVec<A> { fn deref_mut(&mut self) -> &mut [A::Item] { &mut self.v } }
impl<A: Array> Extend<A::Item> for SmallVec<A> {
    fn extend<I: IntoIterator<Item = A::Item>>(&mut self, it: I) { for x in it { self.v.push(x); } }
}
impl<A: Array> FromIterator<A::Item> for SmallVec<A> {
    fn from_iter<I: IntoIterator<Item = A::Item>>(it: I) -> Self { let mut s = Self::new(); s.extend(it); s }
}
impl<'a, A: Array> From<&'a [A::Item]> for SmallVec<A> where A::Item: Clone {
    fn from(s: &'a [A::Item]) -> Self { SmallVec { v: s.to_vec() } }
}
impl<A: Array> IntoIterator for SmallVec<A> { type Item = A::Item; type IntoIter = std::vec::IntoIter<A::Item>; fn into_iter(self) -> Self::IntoIter { self.v.into_iter() } }
impl<'a, A: Array> IntoIterator for &'a SmallVec<A> { type Item = &'a A::Item; type IntoIter = std::slice::Iter<'a, A::Item>; fn into_iter(self) -> Self::IntoIter { self.v.iter() } }
impl<'a, A: Array> IntoIterator for &'a mut SmallVec<A> { type Item = &'a mut A::Item; type IntoIter = std::slice::IterMut<'a, A::Item>; fn into_iter(self) -> Self::IntoIter { self.v.iter_mut() } }
impl<A: Array> Clone for SmallVec<A> where A::Item: Clone { fn clone(&self) -> Self { SmallVec { v: self.v.clone() } } }
impl<A: Array> std::fmt::Debug for SmallVec<A> where A::Item: std::fmt::Debug { fn fmt(&self, f: &mut std::fmt::Formatter) -> std::fmt::Result { self.v.fmt(f) } }
#[macro_export]
macro_rules! smallvec { ($($x:expr),* $(,)?) => {{ let mut s = $crate::SmallVec::new(); $( s.push($x); )* s }}; }
