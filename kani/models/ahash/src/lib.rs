//! Verification model of `ahash`: AHashMap is the real std HashMap behind a fixed, trivial hasher.
use std::collections::HashMap;
use std::hash::{BuildHasher, Hasher};
use std::ops::{Deref, DerefMut};
#[derive(Clone, Default)]
pub struct RandomState;
pub struct ModelHasher(u64);
impl Hasher for ModelHasher {
    fn finish(&self) -> u64 { self.0 }
    fn write(&mut self, bytes: &[u8]) { for b in bytes { self.0 = self.0.wrapping_mul(31).wrapping_add(*b as u64); } }
    fn write_u64(&mut self, x: u64) { self.0 = self.0.wrapping_mul(31).wrapping_add(x); }
    fn write_usize(&mut self, x: usize) { self.write_u64(x as u64) }
    fn write_u8(&mut self, x: u8) { self.write_u64(x as u64) }
    fn write_u32(&mut self, x: u32) { self.write_u64(x as u64) }
    fn write_u128(&mut self, x: u128) { self.write_u64(x as u64); self.write_u64((x >> 64) as u64) }
}
impl BuildHasher for RandomState { type Hasher = ModelHasher; fn build_hasher(&self) -> ModelHasher { ModelHasher(0) } }
impl RandomState { pub fn new() -> Self { RandomState } }
pub struct AHashMap<K, V, S = RandomState>(HashMap<K, V, S>);
impl<K, V> AHashMap<K, V, RandomState> {
    pub fn new() -> Self { AHashMap(HashMap::with_hasher(RandomState)) }
}
impl<K, V, S: Default> Default for AHashMap<K, V, S> { fn default() -> Self { AHashMap(HashMap::with_hasher(S::default())) } }
impl<K, V, S> Deref for AHashMap<K, V, S> { type Target = HashMap<K, V, S>; fn deref(&self) -> &Self::Target { &self.0 } }
impl<K, V, S> DerefMut for AHashMap<K, V, S> { fn deref_mut(&mut self) -> &mut Self::Target { &mut self.0 } }
impl<K: Eq + std::hash::Hash, V, S: BuildHasher + Default> FromIterator<(K, V)> for AHashMap<K, V, S> {
    fn from_iter<I: IntoIterator<Item = (K, V)>>(it: I) -> Self { let mut m = HashMap::with_hasher(S::default()); m.extend(it); AHashMap(m) }
}
impl<'a, K, V, S> IntoIterator for &'a AHashMap<K, V, S> { type Item = (&'a K, &'a V); type IntoIter = std::collections::hash_map::Iter<'a, K, V>; fn into_iter(self) -> Self::IntoIter { self.0.iter() } }
