//! Verification model of `ahash`: `AHashMap` is an association list (insertion order) with the subset of the
//! `HashMap` API that shred uses. Contract kept: at most one entry per key (`Eq`), `insert` replaces and returns
//! the old value, `remove` returns the value, look-ups find exactly the entry with an equal key. hashbrown itself
//! (SIMD group probing) is out of reach of CBMC; nothing in shred depends on iteration order or hashing.
//! `entry()` is NOT modelled (its return type is std's `Entry`, which only a real std map can produce): it panics,
//! so a harness that reaches it fails loudly instead of being silently wrong.
use std::borrow::Borrow;
use std::hash::{BuildHasher, Hasher};
use std::marker::PhantomData;

#[derive(Clone, Default)]
pub struct RandomState;
pub struct ModelHasher(u64);
impl Hasher for ModelHasher {
    fn finish(&self) -> u64 { self.0 }
    fn write(&mut self, bytes: &[u8]) { for b in bytes { self.0 = self.0.wrapping_mul(31).wrapping_add(*b as u64); } }
    fn write_u64(&mut self, x: u64) { self.0 = self.0.wrapping_mul(31).wrapping_add(x); }
}
impl BuildHasher for RandomState { type Hasher = ModelHasher; fn build_hasher(&self) -> ModelHasher { ModelHasher(0) } }
impl RandomState { pub fn new() -> Self { RandomState } }

pub struct AHashMap<K, V, S = RandomState> { items: Vec<(K, V)>, _s: PhantomData<S> }

impl<K, V> AHashMap<K, V, RandomState> {
    pub fn new() -> Self { AHashMap { items: Vec::new(), _s: PhantomData } }
}
impl<K, V, S> Default for AHashMap<K, V, S> { fn default() -> Self { AHashMap { items: Vec::new(), _s: PhantomData } } }

impl<K, V, S> AHashMap<K, V, S> {
    pub fn len(&self) -> usize { self.items.len() }
    pub fn is_empty(&self) -> bool { self.items.is_empty() }
    pub fn keys(&self) -> impl Iterator<Item = &K> { self.items.iter().map(|kv| &kv.0) }
    pub fn values(&self) -> impl Iterator<Item = &V> { self.items.iter().map(|kv| &kv.1) }
    pub fn iter(&self) -> Iter<'_, K, V> { Iter { inner: self.items.iter() } }
    pub fn clear(&mut self) { self.items.clear() }
    fn position<Q: ?Sized + Eq>(&self, k: &Q) -> Option<usize> where K: Borrow<Q> {
        let mut i = 0;
        while i < self.items.len() {
            if self.items[i].0.borrow() == k { return Some(i); }
            i += 1;
        }
        None
    }
    pub fn get<Q: ?Sized + Eq>(&self, k: &Q) -> Option<&V> where K: Borrow<Q> {
        match self.position(k) { Some(i) => Some(&self.items[i].1), None => None }
    }
    pub fn get_mut<Q: ?Sized + Eq>(&mut self, k: &Q) -> Option<&mut V> where K: Borrow<Q> {
        match self.position(k) { Some(i) => Some(&mut self.items[i].1), None => None }
    }
    pub fn contains_key<Q: ?Sized + Eq>(&self, k: &Q) -> bool where K: Borrow<Q> { self.position(k).is_some() }
    pub fn remove<Q: ?Sized + Eq>(&mut self, k: &Q) -> Option<V> where K: Borrow<Q> {
        match self.position(k) { Some(i) => Some(self.items.swap_remove(i).1), None => None }
    }
    pub fn insert(&mut self, k: K, v: V) -> Option<V> where K: Eq {
        match self.position(&k) {
            Some(i) => Some(std::mem::replace(&mut self.items[i].1, v)),
            None => { self.items.push((k, v)); None }
        }
    }
    /// not modelled, see the crate documentation
    pub fn entry(&mut self, _k: K) -> std::collections::hash_map::Entry<'_, K, V> {
        panic!("ahash model: HashMap::entry is not modelled")
    }
}

pub struct Iter<'a, K, V> { inner: std::slice::Iter<'a, (K, V)> }
impl<'a, K, V> Iterator for Iter<'a, K, V> {
    type Item = (&'a K, &'a V);
    fn next(&mut self) -> Option<Self::Item> { self.inner.next().map(|kv| (&kv.0, &kv.1)) }
}
impl<K: Eq, V, S> FromIterator<(K, V)> for AHashMap<K, V, S> {
    fn from_iter<I: IntoIterator<Item = (K, V)>>(it: I) -> Self { let mut m = AHashMap { items: Vec::new(), _s: PhantomData }; for (k, v) in it { m.insert(k, v); } m }
}
impl<'a, K, V, S> IntoIterator for &'a AHashMap<K, V, S> { type Item = (&'a K, &'a V); type IntoIter = Iter<'a, K, V>; fn into_iter(self) -> Self::IntoIter { self.iter() } }
