//! Verification model of `arrayvec::ArrayVec`: Vec-backed, keeps the capacity panic of `push`.
use std::ops::{Deref, DerefMut};
pub struct ArrayVec<T, const CAP: usize> { v: Vec<T> }
impl<T, const CAP: usize> ArrayVec<T, CAP> {
    #[inline] pub fn new() -> Self { ArrayVec { v: Vec::with_capacity(CAP) } }
    #[inline] pub fn len(&self) -> usize { self.v.len() }
    #[inline] pub fn is_empty(&self) -> bool { self.v.is_empty() }
    #[inline] pub fn capacity(&self) -> usize { CAP }
    #[inline] pub fn is_full(&self) -> bool { self.v.len() == CAP }
    #[track_caller]
    pub fn push(&mut self, x: T) {
        if self.v.len() >= CAP { panic!("ArrayVec: capacity exceeded in push"); }
        self.v.push(x)
    }
}
impl<T, const CAP: usize> Default for ArrayVec<T, CAP> { fn default() -> Self { Self::new() } }
impl<T, const CAP: usize> Deref for ArrayVec<T, CAP> { type Target = [T]; fn deref(&self) -> &[T] { &self.v } }
impl<T, const CAP: usize> DerefMut for ArrayVec<T, CAP> { fn deref_mut(&mut self) -> &mut [T] { &mut self.v } }
impl<T, const CAP: usize> FromIterator<T> for ArrayVec<T, CAP> { fn from_iter<I: IntoIterator<Item = T>>(it: I) -> Self { let mut s = Self::new(); for x in it { s.push(x); } s } }
impl<T, const CAP: usize> IntoIterator for ArrayVec<T, CAP> { type Item = T; type IntoIter = std::vec::IntoIter<T>; fn into_iter(self) -> Self::IntoIter { self.v.into_iter() } }
impl<'a, T, const CAP: usize> IntoIterator for &'a ArrayVec<T, CAP> { type Item = &'a T; type IntoIter = std::slice::Iter<'a, T>; fn into_iter(self) -> Self::IntoIter { self.v.iter() } }
impl<'a, T, const CAP: usize> IntoIterator for &'a mut ArrayVec<T, CAP> { type Item = &'a mut T; type IntoIter = std::slice::IterMut<'a, T>; fn into_iter(self) -> Self::IntoIter { self.v.iter_mut() } }
