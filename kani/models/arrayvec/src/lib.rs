//! Verification model of `arrayvec::ArrayVec`: Vec-backed, keeps the capacity panic of `push`.
use std::ops::{Deref, DerefMut};
pub struct ArrayVec<T, const CAP: usize> { v: Vec<T> }
impl<T, const CAP: usize> ArrayVec<T, CAP> {
    #[inline] pub fn new() -> Self { ArrayVec { v: Vec::with_capacity(CAP) } }
    #[inline] pub fn len(&self) -> usize { self.v.len() }
    #[inline] pub fn is_empty(&self) -> bool { self.v.is_empty() }
    #[inline] pub fn capacity(&self) -> usize { CAP }
    #[inline] pub fn is_full(&self) -> bool { self.v.len() == CAP }
    #[track_caller]
    pub fn push(&mut self, x: T) {
        if self.v.len() >= CAP { panic!("ArrayVec: capacity exceeded in push"); }
        self.v.push(x)
    }
    pub fn try_push(&mut self, x: T) -> Result<(), CapacityError<T>> {
        if self.v.len() >= CAP { Err(CapacityError(x)) } else { self.v.push(x); Ok(()) }
    }
    #[inline] pub fn remaining_capacity(&self) -> usize { CAP - self.v.len() }
    #[inline] pub fn pop(&mut self) -> Option<T> { self.v.pop() }
    #[inline] pub fn clear(&mut self) { self.v.clear() }
    #[inline] pub fn remove(&mut self, i: usize) -> T { self.v.remove(i) }
    #[inline] pub fn swap_remove(&mut self, i: usize) -> T { self.v.swap_remove(i) }
    #[inline] pub fn truncate(&mut self, n: usize) { self.v.truncate(n) }
    #[inline] pub fn retain<F: FnMut(&mut T) -> bool>(&mut self, mut f: F) { self.v.retain_mut(|x| f(x)) }
    #[track_caller]
    pub fn insert(&mut self, i: usize, x: T) {
        if self.v.len() >= CAP { panic!("ArrayVec: capacity exceeded in insert"); }
        self.v.insert(i, x)
    }
    #[inline] pub fn as_slice(&self) -> &[T] { &self.v }
    #[inline] pub fn as_mut_slice(&mut self) -> &mut [T] { &mut self.v }
    #[inline] pub fn drain<R: std::ops::RangeBounds<usize>>(&mut self, r: R) -> std::vec::Drain<'_, T> { self.v.drain(r) }
}
#[derive(Debug)]
pub struct CapacityError<T = ()>(pub T);
impl<T, const CAP: usize> Extend<T> for ArrayVec<T, CAP> { fn extend<I: IntoIterator<Item = T>>(&mut self, it: I) { for x in it { self.push(x); } } }
impl<T: Clone, const CAP: usize> Clone for ArrayVec<T, CAP> { fn clone(&self) -> Self { ArrayVec { v: self.v.clone() } } }
impl<T: std::fmt::Debug, const CAP: usize> std::fmt::Debug for ArrayVec<T, CAP> { fn fmt(&self, f: &mut std::fmt::Formatter) -> std::fmt::Result { self.v.fmt(f) } }
impl<T: PartialEq, const CAP: usize> PartialEq for ArrayVec<T, CAP> { fn eq(&self, o: &Self) -> bool { self.v == o.v } }
impl<T, const CAP: usize> Default for ArrayVec<T, CAP> { fn default() -> Self { Self::new() } }
impl<T, const CAP: usize> Deref for ArrayVec<T, CAP> { type Target = [T]; fn deref(&self) -> &[T] { &self.v } }
impl<T, const CAP: usize> DerefMut for ArrayVec<T, CAP> { fn deref_mut(&mut self) -> &mut [T] { &mut self.v } }
impl<T, const CAP: usize> FromIterator<T> for ArrayVec<T, CAP> { fn from_iter<I: IntoIterator<Item = T>>(it: I) -> Self { let mut s = Self::new(); for x in it { s.push(x); } s } }
impl<T, const CAP: usize> IntoIterator for ArrayVec<T, CAP> { type Item = T; type IntoIter = std::vec::IntoIter<T>; fn into_iter(self) -> Self::IntoIter { self.v.into_iter() } }
impl<'a, T, const CAP: usize> IntoIterator for &'a ArrayVec<T, CAP> { type Item = &'a T; type IntoIter = std::slice::Iter<'a, T>; fn into_iter(self) -> Self::IntoIter { self.v.iter() } }
impl<'a, T, const CAP: usize> IntoIterator for &'a mut ArrayVec<T, CAP> { type Item = &'a mut T; type IntoIter = std::slice::IterMut<'a, T>; fn into_iter(self) -> Self::IntoIter { self.v.iter_mut() } }
