//! Sequential *contract model* of rayon for symbolic execution.
//! Every `for_each` / `join` opens a region; jobs of one region "may overlap".
use std::sync::atomic::{AtomicUsize, Ordering::SeqCst};

pub static NEXT_REGION: AtomicUsize = AtomicUsize::new(1);
pub static CUR_REGION: AtomicUsize = AtomicUsize::new(0);
pub static CUR_JOB: AtomicUsize = AtomicUsize::new(0);
pub static IN_POOL: AtomicUsize = AtomicUsize::new(0); // 0 = not inside install, else pool id
static NEXT_POOL: AtomicUsize = AtomicUsize::new(1);
/// When set by a harness, the jobs of a `for_each` / `join` region are started in reverse order
/// (the contract allows any order; harnesses make the choice a solver variable).
pub static MODEL_REVERSE: std::sync::atomic::AtomicBool = std::sync::atomic::AtomicBool::new(false);
/// Number of `install` calls, `join` regions and `for_each` regions opened so far.
pub static N_INSTALL: AtomicUsize = AtomicUsize::new(0);
/// Worker count reported by `current_num_threads` (harnesses may make it a solver variable).
pub static MODEL_NUM_THREADS: AtomicUsize = AtomicUsize::new(16);
pub fn current_num_threads() -> usize { MODEL_NUM_THREADS.load(SeqCst) }

pub fn model_position() -> (usize, usize, usize) { (CUR_REGION.load(SeqCst), CUR_JOB.load(SeqCst), IN_POOL.load(SeqCst)) }

fn with_job<R>(region: usize, job: usize, f: impl FnOnce() -> R) -> R {
    let (r0, j0) = (CUR_REGION.load(SeqCst), CUR_JOB.load(SeqCst));
    CUR_REGION.store(region, SeqCst); CUR_JOB.store(job, SeqCst);
    let r = f();
    CUR_REGION.store(r0, SeqCst); CUR_JOB.store(j0, SeqCst);
    r
}

#[derive(Debug)]
pub struct ThreadPoolBuildError;
impl std::fmt::Display for ThreadPoolBuildError { fn fmt(&self, f: &mut std::fmt::Formatter) -> std::fmt::Result { f.write_str("model") } }
impl std::error::Error for ThreadPoolBuildError {}

#[derive(Default)]
pub struct ThreadPoolBuilder { threads: Option<usize> }
impl ThreadPoolBuilder {
    pub fn new() -> Self { ThreadPoolBuilder { threads: None } }
    pub fn num_threads(mut self, n: usize) -> Self { self.threads = Some(n); self }
    pub fn build(self) -> Result<ThreadPool, ThreadPoolBuildError> {
        Ok(ThreadPool { id: NEXT_POOL.fetch_add(1, SeqCst), explicit_threads: self.threads })
    }
}
#[derive(Debug)]
pub struct ThreadPool { pub id: usize, pub explicit_threads: Option<usize> }
impl ThreadPool {
    pub fn install<OP, R>(&self, op: OP) -> R where OP: FnOnce() -> R + Send, R: Send {
        let prev = IN_POOL.load(SeqCst);
        N_INSTALL.fetch_add(1, SeqCst);
        IN_POOL.store(self.id, SeqCst);
        let r = op();
        IN_POOL.store(prev, SeqCst);
        r
    }
    pub fn join<A, B, RA, RB>(&self, a: A, b: B) -> (RA, RB)
    where A: FnOnce() -> RA + Send, B: FnOnce() -> RB + Send, RA: Send, RB: Send {
        self.install(|| join(a, b))
    }
    pub fn spawn<OP>(&self, op: OP) where OP: FnOnce() + Send + 'static { self.install(op) }
    pub fn current_num_threads(&self) -> usize { MODEL_NUM_THREADS.load(SeqCst) }
    pub fn current_thread_index(&self) -> Option<usize> { if IN_POOL.load(SeqCst) == self.id { Some(0) } else { None } }
}
pub fn join<A, B, RA, RB>(a: A, b: B) -> (RA, RB)
where A: FnOnce() -> RA + Send, B: FnOnce() -> RB + Send, RA: Send, RB: Send {
    let region = NEXT_REGION.fetch_add(1, SeqCst);
    if MODEL_REVERSE.load(SeqCst) {
        let rb = with_job(region, 1, b);
        let ra = with_job(region, 0, a);
        (ra, rb)
    } else {
        let ra = with_job(region, 0, a);
        let rb = with_job(region, 1, b);
        (ra, rb)
    }
}
pub mod iter {
    /// `min_len`: rayon never splits below this many consecutive items, i.e. such items share one job.
    pub struct ParIterMut<'data, T: Send> { pub(crate) slice: &'data mut [T], pub(crate) min_len: usize }
    impl<'data, T: Send> ParIterMut<'data, T> {
        pub fn with_min_len(mut self, n: usize) -> Self { self.min_len = if n == 0 { 1 } else { n }; self }
        pub fn with_max_len(self, _n: usize) -> Self { self }
    }
    pub trait IntoParallelRefMutIterator<'data> { type Item: Send + 'data; fn par_iter_mut(&'data mut self) -> ParIterMut<'data, Self::Item>; }
    impl<'data, T: Send + 'data> IntoParallelRefMutIterator<'data> for [T] { type Item = T; fn par_iter_mut(&'data mut self) -> ParIterMut<'data, T> { ParIterMut { slice: self, min_len: 1 } } }
    impl<'data, T: Send + 'data> IntoParallelRefMutIterator<'data> for Vec<T> { type Item = T; fn par_iter_mut(&'data mut self) -> ParIterMut<'data, T> { ParIterMut { slice: self, min_len: 1 } } }
    pub trait ParallelIterator: Sized { type Item; fn for_each<OP>(self, op: OP) where OP: Fn(Self::Item) + Sync + Send; }
    impl<'data, T: Send + 'data> ParallelIterator for ParIterMut<'data, T> {
        type Item = &'data mut T;
        fn for_each<OP>(self, op: OP) where OP: Fn(&'data mut T) + Sync + Send {
            let region = crate::NEXT_REGION.fetch_add(1, std::sync::atomic::Ordering::SeqCst);
            if crate::MODEL_REVERSE.load(std::sync::atomic::Ordering::SeqCst) {
                let mut i = self.slice.len();
                for x in self.slice.iter_mut().rev() { i -= 1; crate::with_job(region, i / self.min_len, || op(x)); }
            } else {
                let mut i = 0;
                for x in self.slice.iter_mut() { crate::with_job(region, i / self.min_len, || op(x)); i += 1; }
            }
        }
    }
}
pub mod prelude { pub use crate::iter::{IntoParallelRefMutIterator, ParallelIterator}; }
