//! C08 / C09 (E1 part): the real `World` driven through its public API on the association-list model of the
//! resource map (hashbrown itself is out of CBMC's reach; `World` only needs "one slot per equal key").
//! The borrow cells are the real `atomic_refcell` crate.
//!
//! Kani cannot catch a panic, so "a conflicting fetch panics" is split like the Par::with harnesses:
//! `world_ok_*` contain no conflict - any panic is a failed check; `world_conflict_*` end in a conflicting
//! fetch - the library's panic is expected (ignored by the driver) and the sentinel behind it must be unreachable.

use crate::sym::*;
use crate::witness;
use shred::{ResourceId, World};

#[derive(Debug, PartialEq, Eq, Clone, Copy)]
pub struct A(pub u64);
#[derive(Debug, PartialEq, Eq, Clone, Copy)]
pub struct B(pub u64);

/// shared + shared, another resource exclusively at the same time, release, then exclusive; the written value stays
pub fn ok_static() {
    let (a0, b0, a1) = (any_u64(), any_u64(), any_u64());
    let mut w = World::empty();
    w.insert(A(a0));
    w.insert(B(b0));
    {
        let r1 = w.fetch::<A>();
        let r2 = w.fetch::<A>();
        let mut wb = w.fetch_mut::<B>();
        assert!(r1.0 == a0 && r2.0 == a0, "C08: a shared guard does not show the stored value");
        assert!(wb.0 == b0, "C09: fetch_mut::<B> shows another slot's value");
        wb.0 = a1;
        witness!(true, "W: two shared guards and an exclusive guard of another resource coexist");
    }
    {
        let mut wa = w.fetch_mut::<A>();
        wa.0 = a1;
    }
    let ra = w.fetch::<A>();
    assert!(ra.0 == a1, "C08: a value written through an exclusive guard is not what the next guard shows");
    match w.try_fetch::<B>() {
        Some(rb) => {
            assert!(rb.0 == a1, "C08: a value written through an exclusive guard is not what the next guard shows");
            std::mem::forget(rb);
        }
        None => assert!(false, "C09: try_fetch does not find an inserted resource"),
    }
    witness!(true, "W: end of ok_static");
    std::mem::forget(ra);
    std::mem::forget(w);
}

fn conflict(first_excl: bool, second_excl: bool) {
    let mut w = World::empty();
    w.insert(A(any_u64()));
    witness!(true, "W: reached the conflicting fetch");
    if first_excl {
        let g1 = w.fetch_mut::<A>();
        if second_excl {
            let _g2 = w.try_fetch_mut::<A>();
        } else {
            let _g2 = w.try_fetch::<A>();
        }
        assert!(false, "C08: a fetch was granted while an exclusive guard of the same resource is alive");
        std::mem::forget(g1);
    } else {
        let g1 = w.fetch::<A>();
        let _g2 = w.try_fetch_mut::<A>();
        assert!(false, "C08: an exclusive fetch was granted while a shared guard of the same resource is alive");
        std::mem::forget(g1);
    }
}

fn two_ids() -> (ResourceId, ResourceId, ResourceId) {
    let (d1, d2) = (any_u64(), any_u64());
    assume(d1 != d2);
    (ResourceId::new_with_dynamic_id::<A>(d1), ResourceId::new_with_dynamic_id::<A>(d2), ResourceId::new_with_dynamic_id::<B>(d1))
}

/// typed map with dynamic ids: a slot exists iff something was stored under exactly that (type, u64 dynamic id)
pub fn ok_dynamic_presence() {
    let (id1, id2, idb) = two_ids();
    let mut w = World::empty();
    w.insert_by_id(id1.clone(), A(any_u64()));
    assert!(w.has_value_raw(id1.clone()), "C09: a value inserted under an id is not there");
    assert!(!w.has_value_raw(id2.clone()), "C09: a slot that was never written holds a value (ids with different dynamic part collide)");
    assert!(!w.has_value_raw(idb.clone()), "C09: a slot of another type holds a value");
    assert!(w.try_fetch_by_id::<A>(id2).is_none(), "C09: a fetch by an id that was never written finds a value");
    witness!(true, "W: end of ok_dynamic_presence");
    std::mem::forget(w);
}

/// two dynamic slots of one type are independent cells with their own values
pub fn ok_dynamic_independent() {
    let (id1, id2, _idb) = two_ids();
    let (v1, v2, v3) = (any_u64(), any_u64(), any_u64());
    let mut w = World::empty();
    w.insert_by_id(id1.clone(), A(v1));
    w.insert_by_id(id2.clone(), A(v2));
    match (w.try_fetch_mut_by_id::<A>(id1.clone()), w.try_fetch_mut_by_id::<A>(id2.clone())) {
        (Some(mut g1), Some(g2)) => {
            assert!(g1.0 == v1 && g2.0 == v2, "C09: a slot does not hold the value stored under its id");
            g1.0 = v3;
            witness!(true, "W: exclusive guards of two dynamic slots of one type coexist");
            drop(g2);
            drop(g1);
        }
        _ => assert!(false, "C09: an exclusive fetch by id does not find the value stored under that id"),
    }
    // two shared guards of one slot next to a shared guard of the other
    match (w.try_fetch_by_id::<A>(id1.clone()), w.try_fetch_by_id::<A>(id1.clone()), w.try_fetch_by_id::<A>(id2.clone())) {
        (Some(a), Some(b), Some(c)) => {
            assert!(a.0 == v3 && b.0 == v3 && c.0 == v2, "C09: a write through an exclusive by-id guard went to another slot (or was lost)");
            witness!(true, "W: shared by-id guards coexist");
            std::mem::forget((a, b, c));
        }
        _ => assert!(false, "C09: a shared fetch by id does not find the value stored under that id"),
    }
    std::mem::forget(w);
}

/// insert replaces the value of its slot only; remove returns and empties exactly its slot
pub fn ok_dynamic_replace_remove() {
    let (id1, id2, _idb) = two_ids();
    let (v1, v2, v3) = (any_u64(), any_u64(), any_u64());
    let mut w = World::empty();
    w.insert_by_id(id1.clone(), A(v1));
    w.insert_by_id(id2.clone(), A(v2));
    w.insert_by_id(id2.clone(), A(v3));
    match (w.try_fetch_by_id::<A>(id1.clone()), w.try_fetch_by_id::<A>(id2.clone())) {
        (Some(a), Some(b)) => {
            assert!(a.0 == v1, "C09: writing one slot changed another");
            assert!(b.0 == v3, "C09: insert does not replace the value of its slot");
        }
        _ => assert!(false, "C09: a shared fetch by id does not find the value stored under that id"),
    }
    let out = w.remove_by_id::<A>(id1.clone());
    assert!(out == Some(A(v1)), "C09: remove does not return the value of its slot");
    assert!(!w.has_value_raw(id1.clone()) && w.has_value_raw(id2.clone()), "C09: remove emptied the wrong slot");
    assert!(w.remove_by_id::<A>(id1).is_none(), "C09: a second remove finds a value");
    witness!(true, "W: end of ok_dynamic_replace_remove");
    std::mem::forget(w);
}

/// static API: insert / has_value / get_mut / remove agree with the by-id API at dynamic id 0
pub fn ok_typed() {
    let (v1, v2) = (any_u64(), any_u64());
    let mut w = World::empty();
    assert!(!w.has_value::<A>() && w.try_fetch::<A>().is_none(), "C09: an empty world holds a value");
    w.insert(A(v1));
    assert!(w.has_value::<A>() && !w.has_value::<B>(), "C09: has_value disagrees with insert");
    assert!(w.has_value_raw(ResourceId::new::<A>()) && w.has_value_raw(ResourceId::new_with_dynamic_id::<A>(0)), "C09: ResourceId::new::<T>() is not the slot of T with dynamic id 0");
    match w.get_mut::<A>() {
        Some(a) => {
            assert!(a.0 == v1, "C09: get_mut shows another value");
            a.0 = v2;
        }
        None => assert!(false, "C09: get_mut does not find an inserted resource"),
    }
    assert!(w.get_mut::<B>().is_none(), "C09: get_mut finds a resource of a type that was never inserted");
    assert!(w.fetch::<A>().0 == v2, "C09: a write through get_mut is lost");
    assert!(w.remove::<A>() == Some(A(v2)), "C09: remove does not return the stored value");
    assert!(!w.has_value::<A>(), "C09: a removed resource is still there");
    witness!(true, "W: end of ok_typed");
    std::mem::forget(w);
}

/// a cloned shared guard is a borrow of its own: it keeps the cell shared after the original is gone, and releases it when dropped
pub fn ok_clone() {
    let a0 = any_u64();
    let mut w = World::empty();
    w.insert(A(a0));
    {
        let r1 = w.fetch::<A>();
        let r2 = r1.clone();
        drop(r1);
        assert!(r2.0 == a0, "C08: a cloned guard does not show the stored value");
        let r3 = w.fetch::<A>();
        assert!(r3.0 == a0, "C08: a shared fetch next to a cloned guard does not show the stored value");
    }
    let mut g = w.fetch_mut::<A>();
    g.0 = a0.wrapping_add(1);
    witness!(true, "W: exclusive fetch after the clone was dropped");
    std::mem::forget(g);
    std::mem::forget(w);
}

fn conflict_clone() {
    let mut w = World::empty();
    w.insert(A(any_u64()));
    let r1 = w.fetch::<A>();
    let r2 = r1.clone();
    drop(r1);
    witness!(true, "W: reached the conflicting fetch");
    let _g = w.try_fetch_mut::<A>();
    assert!(false, "C08: an exclusive fetch was granted while a cloned shared guard of the same resource is alive");
    std::mem::forget(r2);
}

/// every history of `steps` operations on one resource out of {shared fetch into slot 1 / 2, exclusive fetch, drop of
/// each guard}, chosen by the solver; an operation the borrow model forbids is skipped (the conflict harnesses cover
/// what happens then). After every step the real cell is probed (`try_borrow` / `try_borrow_mut` never panic) and must
/// be in the state the model says: free, shared, or exclusive.
pub fn ok_history(steps: usize) {
    let mut w = World::empty();
    w.insert(A(any_u64()));
    let w = &w;
    let id = ResourceId::new::<A>();
    let mut r1: Option<shred::Fetch<A>> = None;
    let mut r2: Option<shred::Fetch<A>> = None;
    let mut x: Option<shred::FetchMut<A>> = None;
    let mut k = 0;
    while k < steps {
        let op = any_u8();
        assume(op < 6);
        let readers = r1.is_some() as u8 + r2.is_some() as u8;
        let writer = x.is_some();
        match op {
            0 => {
                if r1.is_none() && !writer {
                    r1 = w.try_fetch::<A>();
                    assert!(r1.is_some(), "C08: a shared fetch of a present, not exclusively borrowed resource answered None");
                }
            }
            1 => {
                if r2.is_none() && !writer {
                    r2 = Some(w.fetch::<A>());
                }
            }
            2 => {
                if readers == 0 && !writer {
                    x = w.try_fetch_mut::<A>();
                    assert!(x.is_some(), "C08: an exclusive fetch of a present, unborrowed resource answered None");
                }
            }
            3 => r1 = None,
            4 => r2 = None,
            _ => x = None,
        }
        let readers = r1.is_some() as u8 + r2.is_some() as u8;
        let writer = x.is_some();
        let cell = unsafe { w.try_fetch_internal(id.clone()) }.unwrap();
        let free = cell.try_borrow_mut().is_ok();
        let sharable = cell.try_borrow().is_ok();
        if writer {
            assert!(!free && !sharable, "C08: the cell is not exclusively borrowed although an exclusive guard is alive");
        } else if readers > 0 {
            assert!(!free && sharable, "C08: the cell is not in the shared state although only shared guards are alive");
        } else {
            assert!(free && sharable, "C08: a borrow outlives its guard (or a guard was dropped without releasing)");
        }
        k += 1;
    }
    witness!(x.is_some(), "W: a history ending with an exclusive guard");
    witness!(r1.is_some() && r2.is_some(), "W: a history ending with two shared guards");
    std::mem::forget(r1);
    std::mem::forget(r2);
    std::mem::forget(x);
}

/// the same for the by-id API on a slot with a solver-chosen dynamic id
pub fn ok_history_by_id(steps: usize) {
    let id = ResourceId::new_with_dynamic_id::<A>(any_u64());
    let mut w = World::empty();
    w.insert_by_id(id.clone(), A(any_u64()));
    let w = &w;
    let mut r1: Option<shred::Fetch<A>> = None;
    let mut r2: Option<shred::Fetch<A>> = None;
    let mut x: Option<shred::FetchMut<A>> = None;
    let mut k = 0;
    while k < steps {
        let op = any_u8();
        assume(op < 6);
        let readers = r1.is_some() as u8 + r2.is_some() as u8;
        let writer = x.is_some();
        match op {
            0 => {
                if r1.is_none() && !writer {
                    r1 = w.try_fetch_by_id::<A>(id.clone());
                    assert!(r1.is_some(), "C08: a shared fetch by id of a present, not exclusively borrowed resource answered None");
                }
            }
            1 => {
                if r2.is_none() && !writer {
                    r2 = w.try_fetch_by_id::<A>(id.clone());
                    assert!(r2.is_some(), "C08: a shared fetch by id of a present, not exclusively borrowed resource answered None");
                }
            }
            2 => {
                if readers == 0 && !writer {
                    x = w.try_fetch_mut_by_id::<A>(id.clone());
                    assert!(x.is_some(), "C08: an exclusive fetch by id of a present, unborrowed resource answered None");
                }
            }
            3 => r1 = None,
            4 => r2 = None,
            _ => x = None,
        }
        let readers = r1.is_some() as u8 + r2.is_some() as u8;
        let writer = x.is_some();
        let cell = unsafe { w.try_fetch_internal(id.clone()) }.unwrap();
        let free = cell.try_borrow_mut().is_ok();
        let sharable = cell.try_borrow().is_ok();
        if writer {
            assert!(!free && !sharable, "C08: the cell is not exclusively borrowed although an exclusive guard is alive");
        } else if readers > 0 {
            assert!(!free && sharable, "C08: the cell is not in the shared state although only shared guards are alive");
        } else {
            assert!(free && sharable, "C08: a borrow outlives its guard (or a guard was dropped without releasing)");
        }
        k += 1;
    }
    witness!(x.is_some(), "W: a history ending with an exclusive guard");
    witness!(r1.is_some() && r2.is_some(), "W: a history ending with two shared guards");
    std::mem::forget(r1);
    std::mem::forget(r2);
    std::mem::forget(x);
}

/// by-id conflicts: the same slot through the dynamic API (kind: 0 shared->excl, 1 excl->shared, 2 excl->excl)
fn conflict_by_id(kind: u8) {
    let d = any_u64();
    let id = ResourceId::new_with_dynamic_id::<A>(d);
    let mut w = World::empty();
    w.insert_by_id(id.clone(), A(any_u64()));
    witness!(true, "W: reached the conflicting fetch");
    if kind == 0 {
        let g1 = w.try_fetch_by_id::<A>(id.clone());
        let _g2 = w.try_fetch_mut_by_id::<A>(id.clone());
        assert!(false, "C08: an exclusive fetch by id was granted (or answered None) while a shared guard of the same slot is alive");
        std::mem::forget(g1);
    } else {
        let g1 = w.try_fetch_mut_by_id::<A>(id.clone());
        if kind == 1 {
            let _g2 = w.try_fetch_by_id::<A>(id.clone());
        } else {
            let _g2 = w.try_fetch_mut_by_id::<A>(id.clone());
        }
        assert!(false, "C08: a fetch by id was granted (or answered None) while an exclusive guard of the same slot is alive");
        std::mem::forget(g1);
    }
}

/// an id of another type must be rejected (panic) before anything happens (op: 0 insert, 1 remove, 2 fetch, 3 fetch_mut)
fn mismatch(op: u8) {
    let d = any_u64();
    let id_a = ResourceId::new_with_dynamic_id::<A>(d);
    let mut w = World::empty();
    w.insert_by_id(id_a.clone(), A(any_u64()));
    witness!(true, "W: reached the mismatching call");
    match op {
        0 => w.insert_by_id(id_a, B(any_u64())),
        1 => {
            let _ = w.remove_by_id::<B>(id_a);
        }
        2 => {
            let g = w.try_fetch_by_id::<B>(id_a);
            std::mem::forget(g);
        }
        _ => {
            let g = w.try_fetch_mut_by_id::<B>(id_a);
            std::mem::forget(g);
        }
    }
    assert!(false, "C09: a call with an id of another type than its type argument was not rejected");
}

static DROPS: std::sync::atomic::AtomicUsize = std::sync::atomic::AtomicUsize::new(0);
pub struct D(pub u64);
impl Drop for D {
    fn drop(&mut self) {
        DROPS.fetch_add(1, std::sync::atomic::Ordering::SeqCst);
    }
}

/// every value is dropped exactly once: replaced by insert, handed out by remove, or dropped with the world
pub fn ok_drops() {
    let d = any_u64();
    let id = ResourceId::new_with_dynamic_id::<D>(d);
    DROPS.store(0, std::sync::atomic::Ordering::SeqCst);
    let mut w = World::empty();
    w.insert_by_id(id.clone(), D(1));
    assert!(DROPS.load(std::sync::atomic::Ordering::SeqCst) == 0, "C09: a value was dropped by being inserted");
    w.insert_by_id(id.clone(), D(2));
    assert!(DROPS.load(std::sync::atomic::Ordering::SeqCst) == 1, "C09: the value replaced by insert was not dropped exactly once");
    let out = w.remove_by_id::<D>(id.clone());
    assert!(DROPS.load(std::sync::atomic::Ordering::SeqCst) == 1, "C09: remove dropped a value instead of handing it out");
    match out {
        Some(v) => {
            assert!(v.0 == 2, "C09: remove does not return the value that replaced the first one");
            drop(v);
        }
        None => assert!(false, "C09: remove does not find the stored value"),
    }
    assert!(DROPS.load(std::sync::atomic::Ordering::SeqCst) == 2, "C09: the removed value was not dropped exactly once by its new owner");
    w.insert(D(3));
    drop(w);
    assert!(DROPS.load(std::sync::atomic::Ordering::SeqCst) == 3, "C09: dropping the world does not drop the values it still holds exactly once");
    witness!(true, "W: end of ok_drops");
}

macro_rules! world_instances {
    ($( $name:ident : $body:expr, $unw:expr );* $(;)?) => {
        $(
            #[cfg_attr(kani, kani::proof)]
            #[cfg_attr(kani, kani::unwind($unw))]
            pub fn $name() { $body }
        )*
        pub const INSTANCES: &[(&str, fn())] = &[ $( (stringify!($name), $name as fn()) ),* ];
    };
}

include!("world_instances.in");
