//! C19 (relational): the placement decision is invariant under an injective relabelling of
//! resources (across the two static types and the dynamic ids) and under permutations of the
//! declared read/write lists.  Two table states of the same shape, related by a solver-chosen
//! permutation of the 6 possible resource ids, are asked the same question; the real
//! `insertion_target` must answer identically.

use crate::step::Deps;
use crate::sym::*;
use crate::vocab::*;
use crate::witness;
use shred::verif_hooks::{StagesBuilder, SystemId, VerifTarget};
use shred::ResourceId;
use smallvec::SmallVec;

const NRES: usize = 6;

fn rid_idx(i: usize) -> ResourceId {
    if i >= 3 {
        rid(true, (i - 3) as u64)
    } else {
        rid(false, i as u64)
    }
}

fn look(p: &[usize; NRES], i: usize) -> usize {
    // table look-up by comparisons (concrete loop)
    let mut r = 0;
    let mut k = 0;
    while k < NRES {
        if i == k {
            r = p[k];
        }
        k += 1;
    }
    r
}

pub fn relabel(sh: Shape, barrier: usize, deps: Deps, new_r: usize, new_w: usize) {
    // a solver-chosen permutation of the resource universe
    let mut p = [0usize; NRES];
    let mut i = 0;
    while i < NRES {
        p[i] = any_below(NRES);
        i += 1;
    }
    let mut i = 0;
    while i < NRES {
        let mut j = i + 1;
        while j < NRES {
            assume(p[i] != p[j]);
            j += 1;
        }
        i += 1;
    }
    witness!(p[0] != 0, "W: non-trivial relabelling");

    let mut a = StagesBuilder::verif_with_capacity(sh.s + 1);
    let mut b = StagesBuilder::verif_with_capacity(sh.s + 1);
    let mut id = 0usize;
    let mut s = 0;
    while s < sh.s {
        a.verif_add_stage();
        b.verif_add_stage();
        let mut g = 0;
        while g < sh.g {
            a.verif_add_group(s);
            b.verif_add_group(s);
            let mut l = 0;
            while l < sh.l {
                a.verif_push_slot(s, g, SystemId(id), Box::new(Nop));
                b.verif_push_slot(s, g, SystemId(id), Box::new(Nop));
                id += 1;
                l += 1;
            }
            // group reads: same multiset up to relabelling, order of B's list solver-chosen (nr <= 2)
            let r0 = any_below(NRES);
            let r1 = any_below(NRES);
            let swap = any_bool();
            if sh.nr >= 1 {
                a.verif_push_read(s, g, rid_idx(r0));
            }
            if sh.nr >= 2 {
                a.verif_push_read(s, g, rid_idx(r1));
            }
            if sh.nr == 1 {
                b.verif_push_read(s, g, rid_idx(look(&p, r0)));
            }
            if sh.nr >= 2 {
                if swap {
                    b.verif_push_read(s, g, rid_idx(look(&p, r1)));
                    b.verif_push_read(s, g, rid_idx(look(&p, r0)));
                } else {
                    b.verif_push_read(s, g, rid_idx(look(&p, r0)));
                    b.verif_push_read(s, g, rid_idx(look(&p, r1)));
                }
            }
            let mut i = 0;
            while i < sh.nw {
                let w = any_below(NRES);
                a.verif_push_write(s, g, rid_idx(w));
                b.verif_push_write(s, g, rid_idx(look(&p, w)));
                i += 1;
            }
            let t = any_u8();
            assume(t as usize >= sh.l && t as usize <= 5 * sh.l);
            a.verif_set_time(s, g, t);
            b.verif_set_time(s, g, t);
            g += 1;
        }
        s += 1;
    }
    a.verif_set_barrier(barrier);
    b.verif_set_barrier(barrier);

    // the new system, its relabelled and permuted twin (lists of up to three entries; the order of the twin's
    // lists is solver-chosen; reads reach insertion_target sorted and de-duplicated, as insert passes them)
    let mut ra: Vec<ResourceId> = Vec::with_capacity(3);
    let mut rb: Vec<ResourceId> = Vec::with_capacity(3);
    let mut wa: Vec<ResourceId> = Vec::with_capacity(3);
    let mut wb: Vec<ResourceId> = Vec::with_capacity(3);
    let x = [any_below(NRES), any_below(NRES), any_below(NRES)];
    let y = [any_below(NRES), any_below(NRES), any_below(NRES)];
    let kr = any_below(6);
    let kw = any_below(6);
    let mut i = 0;
    while i < new_r {
        ra.push(rid_idx(x[i]));
        rb.push(rid_idx(look(&p, x[order_at(new_r, kr, i)])));
        i += 1;
    }
    assume_sorted_dedup(&ra);
    assume_sorted_dedup(&rb);
    let mut i = 0;
    while i < new_w {
        wa.push(rid_idx(y[i]));
        wb.push(rid_idx(look(&p, y[order_at(new_w, kw, i)])));
        i += 1;
    }
    witness!(new_w < 2 || kw % 2 == 1, "W: twin declares its writes in another order");
    let time = any_time();
    let mut da: SmallVec<[SystemId; 4]> = SmallVec::new();
    let mut db: SmallVec<[SystemId; 4]> = SmallVec::new();
    if deps != Deps::None {
        let d = any_below(sh.n());
        da.push(SystemId(d));
        db.push(SystemId(d));
    }

    let ta = a.verif_insertion_target(&ra, &wa, &mut da, time);
    let tb = b.verif_insertion_target(&rb, &wb, &mut db, time);
    witness!(matches!(ta, VerifTarget::NewStage), "W: NewStage reachable");
    witness!(matches!(ta, VerifTarget::Stage(_)), "W: Stage reachable");
    witness!(matches!(ta, VerifTarget::Group(_, _)), "W: Group reachable");
    assert!(ta == tb, "C19: the placement changed under a consistent renaming of resources / a permutation of the declared lists");
    std::mem::forget(a);
    std::mem::forget(b);
}

macro_rules! relabel_instances {
    ($( $name:ident : $s:expr, $g:expr, $l:expr, $nr:expr, $nw:expr, $bar:expr, $deps:expr, $newr:expr, $neww:expr, $unw:expr );* $(;)?) => {
        $(
            #[cfg_attr(kani, kani::proof)]
            #[cfg_attr(kani, kani::unwind($unw))]
            pub fn $name() {
                relabel(Shape { s: $s, g: $g, l: $l, nr: $nr, nw: $nw }, $bar, $deps, $newr, $neww);
            }
        )*
        pub const INSTANCES: &[(&str, fn())] = &[ $( (stringify!($name), $name as fn()) ),* ];
    };
}

include!("relabel_instances.in");
