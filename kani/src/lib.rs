//! E1: Kani/CBMC harnesses over the real shred code (see /verif/DESIGN.md).
#![allow(clippy::all)]
pub mod sym;
pub mod vocab;
pub mod step;
pub mod exec;
pub mod commit;
pub mod relabel;
pub mod unit;
pub mod parseq;
pub mod world;
pub mod data;

/// All harness instances by name (used by the native replay binary).
#[cfg(not(kani))]
pub fn registry() -> Vec<(&'static str, fn())> {
    let mut v: Vec<(&'static str, fn())> = Vec::new();
    v.extend_from_slice(step::INSTANCES);
    v.extend_from_slice(exec::INSTANCES);
    v.extend_from_slice(commit::INSTANCES);
    v.extend_from_slice(relabel::INSTANCES);
    v.extend_from_slice(unit::INSTANCES);
    v.extend_from_slice(parseq::INSTANCES);
    v.extend_from_slice(world::INSTANCES);
    v.extend_from_slice(data::INSTANCES);
    v
}
