//! C16 (E1 part): the real `Par::with` conflict check with symbolic leaf access sets, and real
//! Par/Seq trees run on the rayon contract model.
//!
//! `Par::with` panics (debug assertions are on in the profile Kani models) iff the new child
//! conflicts with what is already in the node. Kani cannot catch a panic, so the "iff" is split
//! into two harness families: `ok_*` assume "no conflict" - any panic is a failed check;
//! `conflict_*` assume "conflict" - the library's own assertion is *expected* to fail (ignored by
//! the driver) and the sentinel after the call must be unreachable.

use crate::exec::{count, ev, find, nlog, reset_log, RUN};
use crate::sym::*;
use crate::vocab::*;
use crate::witness;
use shred::{AccessorCow, Par, ResourceId, RunWithPool, Seq, System, World};

pub struct Leaf {
    pub id: usize,
    acc: DynAcc,
}

impl<'a> System<'a> for Leaf {
    type SystemData = DynData;
    fn run(&mut self, _: DynData) {
        crate::exec::log_event(self.id, RUN);
    }
    fn accessor<'b>(&'b self) -> AccessorCow<'a, 'b, Self> {
        AccessorCow::Ref(&self.acc)
    }
}

fn leaf(id: usize, r: &ResourceId, w: &ResourceId) -> Leaf {
    Leaf { id, acc: DynAcc { reads: vec![r.clone()], writes: vec![w.clone()] } }
}

fn plain(id: usize) -> Leaf {
    Leaf { id, acc: DynAcc { reads: Vec::new(), writes: Vec::new() } }
}

fn pair_conflict(r1: &ResourceId, w1: &ResourceId, r2: &ResourceId, w2: &ResourceId) -> bool {
    w1 == r2 || w1 == w2 || r1 == w2
}

/// Three leaves with one symbolic read and one symbolic write each; the first two do not conflict
/// (assumed - that `with` accepted them is then part of the `ok` claim), the third is the subject.
pub fn par_with(expect_conflict: bool, nested: bool) {
    let (r1, w1) = (any_rid(), any_rid());
    let (r2, w2) = (any_rid(), any_rid());
    let (r3, w3) = (any_rid(), any_rid());
    assume(!pair_conflict(&r1, &w1, &r2, &w2));
    let c = pair_conflict(&r1, &w1, &r3, &w3) || pair_conflict(&r2, &w2, &r3, &w3);
    assume(c == expect_conflict);
    witness!(true, "W: reached the call of Par::with");
    if nested {
        // the node already holds a seq child made of the first two leaves
        let node = Par::new(Seq::new(leaf(1, &r1, &w1)).with(leaf(2, &r2, &w2)));
        let p = node.with(leaf(3, &r3, &w3));
        if expect_conflict {
            assert!(false, "C16: Par::with accepted a child that conflicts with a leaf nested inside the node");
        }
        witness!(true, "W: with returned");
        std::mem::forget(p);
    } else {
        let node = Par::new(leaf(1, &r1, &w1)).with(leaf(2, &r2, &w2));
        let p = node.with(leaf(3, &r3, &w3));
        if expect_conflict {
            assert!(false, "C16: Par::with accepted a child that conflicts with the children already in the node");
        }
        witness!(true, "W: with returned");
        std::mem::forget(p);
    }
}

fn region(id: usize) -> (usize, usize, usize) {
    let e = ev(find(id, RUN, 0));
    (e.region, e.job, find(id, RUN, 0))
}

/// seq![ a, par![ b, seq![c, d], e ], f ] on the contract model, from outside the pool.
pub fn tree_run() {
    reset_log();
    rayon::MODEL_REVERSE.store(any_bool(), std::sync::atomic::Ordering::SeqCst);
    let pool = rayon::ThreadPoolBuilder::new().build().unwrap();
    let mut t = Seq::new(plain(1))
        .with(Par::new(plain(2)).with(Seq::new(plain(3)).with(plain(4))).with(plain(5)))
        .with(plain(6));
    let w = World::empty();
    RunWithPool::run(&mut t, &w, &pool);
    let mut id = 1;
    while id <= 6 {
        assert!(count(id, RUN, 0) == 1, "C16: a leaf of the tree did not run exactly once");
        id += 1;
    }
    assert!(nlog() == 6, "C16: something other than the six leaves ran");
    let (ra, _, ia) = region(1);
    let (rb, jb, ib) = region(2);
    let (rc, jc, ic) = region(3);
    let (rd, jd, id_) = region(4);
    let (re, je, ie) = region(5);
    let (rf, _, if_) = region(6);
    // seq: a before everything of the par node, f after everything
    assert!(ia < ib && ia < ic && ia < id_ && ia < ie, "C16: a later seq child started before an earlier one finished");
    assert!(if_ > ib && if_ > ic && if_ > id_ && if_ > ie, "C16: a later seq child started before an earlier one finished");
    assert!(ra == 0 && rf == 0, "C16: a direct seq child ran inside a parallel region");
    // par children are jobs of parallel regions (nested joins: distinct (region, job) pairs), never the same job
    assert!(rb != 0 && rc != 0 && re != 0, "C16: a par child was not handed to a join");
    assert!(!(rb == rc && jb == jc) && !(rb == re && jb == je) && !(rc == re && jc == je), "C16: two par children were serialised into one job");
    // the nested seq keeps its order and stays in one job
    assert!(rc == rd && jc == jd && ic < id_, "C16: leaves of a seq node nested in a par node were reordered or split");
    witness!(true, "W: tree checked");
    std::mem::forget(t);
}

macro_rules! parseq_instances {
    ($( $name:ident : $body:expr, $unw:expr );* $(;)?) => {
        $(
            #[cfg_attr(kani, kani::proof)]
            #[cfg_attr(kani, kani::unwind($unw))]
            pub fn $name() {
                $body;
            }
        )*
        pub const INSTANCES: &[(&str, fn())] = &[ $( (stringify!($name), $name as fn()) ),* ];
    };
}

include!("parseq_instances.in");
