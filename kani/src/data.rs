//! C06 (E1 part): "fetching borrows shared exactly the existing resources reported as reads, exclusively exactly the
//! existing resources reported as writes, and nothing else; all of it is released when the value is dropped" -
//! decided on the real `World` (association-list model of the map, real atomic_refcell cells) for a list of
//! provided / derived system-data types, each resource symbolically present or absent.
//! The borrow state of a cell is *observed* through `try_fetch_internal` + `try_borrow(_mut)`, which never panic.

use crate::sym::*;
use crate::witness;
use shred::{Read, ReadExpect, ResourceId, SystemData, World, Write, WriteExpect};
use std::marker::PhantomData;

#[derive(Default, Debug, PartialEq, Eq, Clone, Copy)]
pub struct A(pub u64);
#[derive(Default, Debug, PartialEq, Eq, Clone, Copy)]
pub struct B(pub u64);
#[derive(Default, Debug, PartialEq, Eq, Clone, Copy)]
pub struct C(pub u64);

#[derive(PartialEq, Eq, Clone, Copy)]
enum Cell {
    Absent,
    Free,
    Shared,
    Exclusive,
}

fn state(w: &World, id: ResourceId) -> Cell {
    match unsafe { w.try_fetch_internal(id) } {
        None => Cell::Absent,
        Some(c) => {
            if c.try_borrow_mut().is_ok() {
                Cell::Free
            } else if c.try_borrow().is_ok() {
                Cell::Shared
            } else {
                Cell::Exclusive
            }
        }
    }
}

fn has(v: &[ResourceId], id: &ResourceId) -> bool {
    let mut i = 0;
    while i < v.len() {
        if v[i] == *id {
            return true;
        }
        i += 1;
    }
    false
}

fn expected(present: bool, reads: &[ResourceId], writes: &[ResourceId], id: &ResourceId) -> Cell {
    if !present {
        Cell::Absent
    } else if has(writes, id) {
        Cell::Exclusive
    } else if has(reads, id) {
        Cell::Shared
    } else {
        Cell::Free
    }
}

fn world(pa: bool, pb: bool, pc: bool) -> World {
    let mut w = World::empty();
    if pa {
        w.insert(A(any_u64()));
    }
    if pb {
        w.insert(B(any_u64()));
    }
    if pc {
        w.insert(C(any_u64()));
    }
    w
}

/// `$need`: presence the type needs for its fetch not to panic (non-optional members)
macro_rules! fetch_case {
    ($name:ident, $ty:ty, |$pa:ident, $pb:ident, $pc:ident| $need:expr) => {
        fetch_case!($name, $ty, |$pa, $pb, $pc| $need, |w| <$ty as SystemData>::fetch(w));
    };
    ($name:ident, $ty:ty, |$pa:ident, $pb:ident, $pc:ident| $need:expr, |$w:ident| $fetch:expr) => {
        /// presence of A, B, C is concrete per instance (a symbolic table length makes CBMC run out of memory)
        pub fn $name($pa: bool, $pb: bool, $pc: bool) {
            assert!($need, "harness instance asks for a fetch that must panic");
            let w: &'static World = Box::leak(Box::new(world($pa, $pb, $pc)));     // `'static` data types below; never dropped
            let (ia, ib, ic) = (ResourceId::new::<A>(), ResourceId::new::<B>(), ResourceId::new::<C>());
            let reads = <$ty as SystemData>::reads();
            let writes = <$ty as SystemData>::writes();
            {
                let $w = w;
                let d = $fetch;
                witness!(true, "W: fetched");
                assert!(state(w, ia.clone()) == expected($pa, &reads, &writes, &ia), "C06: after fetch the borrow state of a resource is not what reads()/writes() declare (A)");
                assert!(state(w, ib.clone()) == expected($pb, &reads, &writes, &ib), "C06: after fetch the borrow state of a resource is not what reads()/writes() declare (B)");
                assert!(state(w, ic.clone()) == expected($pc, &reads, &writes, &ic), "C06: after fetch the borrow state of a resource is not what reads()/writes() declare (C)");
                drop(d);
            }
            assert!(state(w, ia.clone()) == expected($pa, &[], &[], &ia), "C06: dropping the fetched value does not release every borrow (A)");
            assert!(state(w, ib.clone()) == expected($pb, &[], &[], &ib), "C06: dropping the fetched value does not release every borrow (B)");
            assert!(state(w, ic.clone()) == expected($pc, &[], &[], &ic), "C06: dropping the fetched value does not release every borrow (C)");
            witness!(true, "W: released");
        }
    };
}

#[derive(shred::SystemData)]
pub struct Named<'a> {
    a: Read<'a, A>,
    b: Write<'a, B>,
    c: Option<Read<'a, C>>,
}

#[derive(shred::SystemData)]
pub struct Tup<'a>(ReadExpect<'a, A>, Option<Write<'a, C>>);

#[derive(shred::SystemData)]
pub struct Nest<'a> {
    inner: Tup<'a>,
    b: (WriteExpect<'a, B>, PhantomData<A>),
}

#[derive(shred::SystemData)]
pub struct Gen<'a, T>
where
    T: SystemData<'a>,
{
    t: T,
    a: Option<Read<'a, A>>,
}

/// two instantiations of ONE generic derived struct in one run: what the first one declares must not leak into the second
pub fn f_derive_two_instantiations() {
    type G1 = Gen<'static, (Write<'static, B>,)>;
    type G2 = Gen<'static, (Write<'static, C>,)>;
    let (ia, ib, ic) = (ResourceId::new::<A>(), ResourceId::new::<B>(), ResourceId::new::<C>());
    let (r1, w1) = (<G1 as SystemData>::reads(), <G1 as SystemData>::writes());
    let (r2, w2) = (<G2 as SystemData>::reads(), <G2 as SystemData>::writes());
    assert!(has(&w1, &ib) && !has(&w1, &ic) && has(&r1, &ia), "C06: a generic derived struct declares something else than its members (first instantiation)");
    assert!(has(&w2, &ic) && !has(&w2, &ib) && has(&r2, &ia), "C06: a generic derived struct declares something else than its members (second instantiation answers like the first)");
    let w: &'static World = Box::leak(Box::new(world(true, true, true)));
    {
        let d = <G2 as SystemData>::fetch(w);
        assert!(state(w, ic.clone()) == expected(true, &r2, &w2, &ic), "C06: after fetch the borrow state of a resource is not what reads()/writes() declare (C)");
        assert!(state(w, ib.clone()) == expected(true, &r2, &w2, &ib), "C06: after fetch the borrow state of a resource is not what reads()/writes() declare (B)");
        drop(d);
    }
    witness!(true, "W: two instantiations checked");
}

fetch_case!(f_derive_generic, Gen<'static, (Write<'static, B>, Read<'static, C>)>, |pa, pb, pc| pb && pc);
// the same through World::system_data (what `World::exec` and user code call)
fetch_case!(f_system_data, (Read<'static, A>, Option<Write<'static, C>>), |pa, pb, pc| pa, |w| w.system_data::<(Read<'static, A>, Option<Write<'static, C>>)>());
fetch_case!(f_read, Read<'static, A>, |pa, pb, pc| pa);
fetch_case!(f_write, Write<'static, B>, |pa, pb, pc| pb);
fetch_case!(f_read_expect, ReadExpect<'static, C>, |pa, pb, pc| pc);
fetch_case!(f_write_expect, WriteExpect<'static, A>, |pa, pb, pc| pa);
fetch_case!(f_opt_read, Option<Read<'static, A>>, |pa, pb, pc| true);
fetch_case!(f_opt_write, Option<Write<'static, B>>, |pa, pb, pc| true);
fetch_case!(f_unit, (), |pa, pb, pc| true);
fetch_case!(f_phantom, PhantomData<A>, |pa, pb, pc| true);
fetch_case!(f_tuple1, (Write<'static, C>,), |pa, pb, pc| pc);
fetch_case!(f_tuple2, (Read<'static, A>, Write<'static, B>), |pa, pb, pc| pa && pb);
fetch_case!(f_tuple3, (Option<Read<'static, A>>, Write<'static, B>, Read<'static, C>), |pa, pb, pc| pb && pc);
fetch_case!(f_tuple_same_read, (Read<'static, A>, Option<Read<'static, A>>, ReadExpect<'static, A>), |pa, pb, pc| pa);
fetch_case!(f_nested, ((Read<'static, A>,), (Option<Write<'static, B>>, (WriteExpect<'static, C>, ()))), |pa, pb, pc| pa && pc);
fetch_case!(f_derive_named, Named<'static>, |pa, pb, pc| pa && pb);
fetch_case!(f_derive_tuple, Tup<'static>, |pa, pb, pc| pa);
fetch_case!(f_derive_nested, Nest<'static>, |pa, pb, pc| pa && pb);

macro_rules! data_instances {
    ($( $name:ident : $f:ident, $pa:expr, $pb:expr, $pc:expr, $unw:expr );* ; @plain $( $pname:ident : $pf:ident, $punw:expr );* $(;)?) => {
        $(
            #[cfg_attr(kani, kani::proof)]
            #[cfg_attr(kani, kani::unwind($unw))]
            pub fn $name() { $f($pa, $pb, $pc) }
        )*
        $(
            #[cfg_attr(kani, kani::proof)]
            #[cfg_attr(kani, kani::unwind($punw))]
            pub fn $pname() { $pf() }
        )*
        pub const INSTANCES: &[(&str, fn())] = &[ $( (stringify!($name), $name as fn()), )* $( (stringify!($pname), $pname as fn()), )* ];
    };
}

include!("data_instances.in");
