//! Symbolic value source. Under Kani every `any_*` is a fresh solver variable; in a native
//! build (replay of a counterexample against the real dependency set) the values come, in the
//! same call order, from the vector loaded with `replay_load`.

#[cfg(not(kani))]
mod native {
    use std::cell::RefCell;
    thread_local! {
        pub static VALUES: RefCell<(Vec<u64>, usize)> = RefCell::new((Vec::new(), 0));
    }
    pub fn next() -> u64 {
        VALUES.with(|v| {
            let mut v = v.borrow_mut();
            let i = v.1;
            v.1 += 1;
            match v.0.get(i) {
                Some(x) => *x,
                None => {
                    eprintln!("REPLAY-ERROR: value vector exhausted at index {}", i);
                    std::process::exit(3);
                }
            }
        })
    }
}

/// Loads the concrete values for a native replay.
#[cfg(not(kani))]
pub fn replay_load(values: Vec<u64>) {
    native::VALUES.with(|v| *v.borrow_mut() = (values, 0));
}

#[cfg(not(kani))]
pub fn replay_consumed() -> (usize, usize) {
    native::VALUES.with(|v| {
        let v = v.borrow();
        (v.1, v.0.len())
    })
}

#[inline(always)]
pub fn any_bool() -> bool {
    #[cfg(kani)]
    {
        kani::any()
    }
    #[cfg(not(kani))]
    {
        native::next() != 0
    }
}

#[inline(always)]
pub fn any_u8() -> u8 {
    #[cfg(kani)]
    {
        kani::any()
    }
    #[cfg(not(kani))]
    {
        native::next() as u8
    }
}

#[inline(always)]
pub fn any_u64() -> u64 {
    #[cfg(kani)]
    {
        kani::any()
    }
    #[cfg(not(kani))]
    {
        native::next()
    }
}

#[inline(always)]
pub fn any_usize() -> usize {
    #[cfg(kani)]
    {
        kani::any()
    }
    #[cfg(not(kani))]
    {
        native::next() as usize
    }
}

/// `kani::assume`; natively a violated assumption means the replayed values do not describe
/// an admissible input: the replay is void (exit code 4), never a violation.
#[inline(always)]
pub fn assume(b: bool) {
    #[cfg(kani)]
    {
        kani::assume(b);
    }
    #[cfg(not(kani))]
    {
        if !b {
            eprintln!("REPLAY-VOID: an assumption of the harness does not hold for the replayed values");
            std::process::exit(4);
        }
    }
}

/// Vacuity witness: must be SATISFIED in the solver run.
#[macro_export]
macro_rules! witness {
    ($c:expr, $m:literal) => {{
        #[cfg(kani)]
        {
            kani::cover!($c, $m);
        }
        #[cfg(not(kani))]
        {
            let _ = $c;
        }
    }};
}

/// A usize in `0..n` (n > 0).
#[inline(always)]
pub fn any_below(n: usize) -> usize {
    let x = any_usize();
    assume(x < n);
    x
}
