//! Inductive step of the planner: from an arbitrary table state of a concrete shape, the real
//! `insertion_target` is asked where an arbitrary new system goes; the answer is checked
//! against the statements of C01, C02, C03, C10 and C18.
//!
//! All table look-ups of the oracle use *concrete* indices (loops over the concrete shape with
//! an `if s == k` guard): indexing the nested heap tables with the solver-chosen target slot
//! costs a factor 10 in formula size.

use crate::sym::*;
use crate::vocab::*;
use crate::witness;
use shred::verif_hooks::{SystemId, VerifTarget};
use smallvec::SmallVec;

/// How the dependency list of the new system is formed (concrete per instance).
#[derive(Clone, Copy, PartialEq, Eq)]
pub enum Deps {
    None,
    One,
    Two,
    /// the same id listed twice
    TwoEqual,
    /// three entries [a, b, a]: a repeated, not adjacent
    ThreeAba,
    /// the same id five times: longer than the inline capacity (4) of the dependency list
    FiveSame,
}

pub fn step(sh: Shape, barrier: usize, deps: Deps, new_r: usize, new_w: usize) {
    // dependencies are chosen as *slots*; the ids sitting in the slots are a solver-chosen permutation
    let n = sh.n();
    let perm = if deps == Deps::None { [0, 1, 2, 3, 4, 5, 6, 7] } else { any_permutation(n) };
    let b = pre_state_ids(sh, barrier, if deps == Deps::None { None } else { Some(&perm) });
    let r = any_rids(new_r);
    assume_sorted_dedup(&r); // what insert passes on; the writes come as declared
    let w = any_rids(new_w);
    let time = any_time();

    let mut dep: SmallVec<[SystemId; 4]> = SmallVec::new();
    let mut d: [usize; 3] = [0, 0, 0];
    let nd = match deps {
        Deps::None => 0,
        Deps::One => 1,
        Deps::Two | Deps::TwoEqual => 2,
        Deps::ThreeAba => 3,
        Deps::FiveSame => 1,
    };
    if nd >= 1 {
        d[0] = any_below(n);
        dep.push(SystemId(perm_at(&perm, n, d[0])));
    }
    if nd >= 2 {
        if deps == Deps::TwoEqual {
            d[1] = d[0];
        } else {
            d[1] = any_below(n);
            assume(d[1] != d[0]);
        }
        dep.push(SystemId(perm_at(&perm, n, d[1])));
    }
    if nd == 3 {
        d[2] = d[0];
        dep.push(SystemId(perm_at(&perm, n, d[2])));
    }
    if deps == Deps::FiveSame {
        let mut i = 0;
        while i < 4 {
            dep.push(SystemId(perm_at(&perm, n, d[0])));
            i += 1;
        }
    }
    // positions of the dependencies: d[i] are slots (comparisons only)
    let ds = [sh.stage_of(d[0]), sh.stage_of(d[1]), sh.stage_of(d[2])];
    let dg = [sh.group_of(d[0]), sh.group_of(d[1]), sh.group_of(d[2])];

    let tgt = b.verif_insertion_target(&r, &w, &mut dep, time);

    // stage index the new system ends up in; group it joins (sh.g = a fresh group)
    let (ts, tg) = match tgt {
        VerifTarget::Stage(s) => (s, sh.g),
        VerifTarget::Group(s, g) => (s, g),
        VerifTarget::NewStage => (sh.s, 0),
    };
    let is_group = matches!(tgt, VerifTarget::Group(_, _));
    let is_new = matches!(tgt, VerifTarget::NewStage);

    witness!(is_new, "W: NewStage reachable");
    witness!(!is_new && !is_group, "W: Stage reachable");
    witness!(is_group, "W: Group reachable");

    if !is_new {
        assert!(ts >= barrier, "C03: placed in a stage in front of the barrier");
        assert!(ts < sh.s, "C18: target stage out of range");
        if is_group {
            assert!(tg < sh.g, "C18: target group out of range");
        }
    }

    // C01 / C18 on the target stage, C10 on the skipped stages: concrete loops over the shape.
    let mut k = 0;
    while k < sh.s {
        let mut any_conflict = false;
        let mut g = 0;
        while g < sh.g {
            let c = conflicts(&b, k, g, &r, &w);
            if c {
                any_conflict = true;
            }
            if !is_new && ts == k {
                if is_group {
                    if tg != g {
                        assert!(
                            !c,
                            "C01: joined one group while conflicting with another group of the stage"
                        );
                    } else {
                        assert!(
                            b.verif_exec_len(k, g) < 5,
                            "C18: joins a group that is already at capacity"
                        );
                    }
                } else {
                    assert!(!c, "C01: new group opened in a stage that holds a conflicting group");
                }
            }
            g += 1;
        }
        // C10: a skipped stage must be forced by a conflict or by a dependency at or after it.
        if k >= barrier && k < ts {
            let mut forced = any_conflict;
            let mut before_barrier_dep = false;
            let mut i = 0;
            while i < nd {
                if ds[i] >= k {
                    forced = true;
                }
                if ds[i] < barrier {
                    before_barrier_dep = true;
                }
                i += 1;
            }
            if before_barrier_dep {
                assert!(forced, "C10[dep-before-barrier]: stage skipped although nothing in it forces that");
            } else if deps == Deps::TwoEqual || deps == Deps::ThreeAba || deps == Deps::FiveSame {
                assert!(forced, "C10[duplicate-dep]: stage skipped although nothing in it forces that");
            } else {
                assert!(forced, "C10: stage skipped although nothing in it forces that");
            }
        }
        k += 1;
    }

    // C02: every dependency is strictly earlier in the run order.
    if !is_new {
        let mut i = 0;
        while i < nd {
            if is_group {
                assert!(
                    ds[i] < ts || (ds[i] == ts && dg[i] == tg),
                    "C02: a dependency runs in a later stage or in a sibling group"
                );
            } else {
                assert!(ds[i] < ts, "C02: placed side by side with or in front of a dependency");
            }
            i += 1;
        }
    }

    std::mem::forget(b);
}

/// Generates one proof harness per concrete instance plus a registry for native replay.
/// name : stages, groups/stage, systems/group, reads/group, writes/group, barrier, deps,
///        reads of the new system, writes of the new system, unwind bound
macro_rules! step_instances {
    ($( $name:ident : $s:expr, $g:expr, $l:expr, $nr:expr, $nw:expr, $bar:expr, $deps:expr, $newr:expr, $neww:expr, $unw:expr );* $(;)?) => {
        $(
            #[cfg_attr(kani, kani::proof)]
            #[cfg_attr(kani, kani::unwind($unw))]
            pub fn $name() {
                step(Shape { s: $s, g: $g, l: $l, nr: $nr, nw: $nw }, $bar, $deps, $newr, $neww);
            }
        )*
        pub const INSTANCES: &[(&str, fn())] = &[ $( (stringify!($name), $name as fn()) ),* ];
    };
}

// Instance names are self-describing: s<stages>g<groups>l<len>_r<nr>w<nw>_b<barrier>_d<deps>_n<newr><neww>
include!("step_instances.in");
