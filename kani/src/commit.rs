//! Commit step of the planner: the real `StagesBuilder::insert` (decision + the five pushes) from a
//! table state of concrete shape with symbolic contents and a symbolic new system.  Checks that
//! the five parallel tables stay in lock-step, that exactly one slot gains the new id and one boxed
//! system, that the slot's access tables hold everything the system declared (and everything they
//! held before), and that nothing else changes.  Decides the "tables are what the accessor said"
//! part of C01/C05/C07, the lock-step part of C04 and the sort/dedup part of C19.

use crate::step::Deps;
use crate::sym::*;
use crate::vocab::*;
use crate::witness;
use shred::verif_hooks::{StagesBuilder, SystemId};
use shred::ResourceId;
use smallvec::SmallVec;

const MS: usize = 3; // max stages after the insert
const MG: usize = 4; // max groups per stage after the insert

/// Source of the harness's input values: solver variables, or a fixed list (concrete instances that
/// pin the planner's decision so that the join-a-group / open-a-group paths of the commit stay cheap).
pub struct Src {
    fixed: Option<&'static [u64]>,
    i: usize,
}

impl Src {
    pub fn sym() -> Self {
        Src { fixed: None, i: 0 }
    }
    pub fn fixed(v: &'static [u64]) -> Self {
        Src { fixed: Some(v), i: 0 }
    }
    fn next(&mut self) -> Option<u64> {
        match self.fixed {
            Some(v) => {
                let x = v[self.i];
                self.i += 1;
                Some(x)
            }
            None => None,
        }
    }
    fn rid(&mut self) -> ResourceId {
        match self.fixed {
            Some(_) => {
                let t = self.next().unwrap() != 0;
                let d = self.next().unwrap();
                rid(t, d)
            }
            None => any_rid(),
        }
    }
    fn time_u8(&mut self, lo: usize, hi: usize) -> u8 {
        match self.next() {
            Some(x) => x as u8,
            None => {
                let t = any_u8();
                assume(t as usize >= lo && t as usize <= hi);
                t
            }
        }
    }
    fn below(&mut self, n: usize) -> usize {
        match self.next() {
            Some(x) => x as usize,
            None => any_below(n),
        }
    }
}

fn time_of(t: u8) -> shred::RunningTime {
    match t {
        1 => shred::RunningTime::VeryShort,
        2 => shred::RunningTime::Short,
        3 => shred::RunningTime::Average,
        4 => shred::RunningTime::Long,
        _ => shred::RunningTime::VeryLong,
    }
}

fn has_id(b: &StagesBuilder, s: usize, g: usize, id: usize) -> usize {
    let v = b.verif_ids(s, g);
    let mut c = 0;
    let mut i = 0;
    while i < v.len() {
        if v[i].0 == id {
            c += 1;
        }
        i += 1;
    }
    c
}

pub fn commit(sh: Shape, barrier: usize, deps: Deps, new_r: usize, new_w: usize) {
    commit_from(&mut Src::sym(), sh, barrier, deps, new_r, new_w)
}

pub fn commit_from(src: &mut Src, sh: Shape, barrier: usize, deps: Deps, new_r: usize, new_w: usize) {
    // pre-state with remembered contents
    let mut b = StagesBuilder::verif_with_capacity(sh.s + 1);
    let mut pre_r: [[Vec<ResourceId>; MG]; MS] = Default::default();
    let mut pre_w: [[Vec<ResourceId>; MG]; MS] = Default::default();
    let mut pre_t: [[u8; MG]; MS] = [[0; MG]; MS];
    let mut id = 0usize;
    let mut s = 0;
    while s < sh.s {
        b.verif_add_stage();
        let mut g = 0;
        while g < sh.g {
            b.verif_add_group(s);
            let mut l = 0;
            while l < sh.l {
                b.verif_push_slot(s, g, SystemId(id), Box::new(Nop));
                id += 1;
                l += 1;
            }
            let mut i = 0;
            while i < sh.nr {
                let x = src.rid();
                pre_r[s][g].push(x.clone());
                b.verif_push_read(s, g, x);
                i += 1;
            }
            let mut i = 0;
            while i < sh.nw {
                let x = src.rid();
                pre_w[s][g].push(x.clone());
                b.verif_push_write(s, g, x);
                i += 1;
            }
            let t = src.time_u8(sh.l, 5 * sh.l);
            pre_t[s][g] = t;
            b.verif_set_time(s, g, t);
            g += 1;
        }
        s += 1;
    }
    b.verif_set_barrier(barrier);

    // the new system: symbolic declaration (duplicates and read/write overlap allowed)
    let mut r: Vec<ResourceId> = Vec::with_capacity(new_r);
    let mut i = 0;
    while i < new_r {
        r.push(src.rid());
        i += 1;
    }
    let mut w: Vec<ResourceId> = Vec::with_capacity(new_w);
    let mut i = 0;
    while i < new_w {
        w.push(src.rid());
        i += 1;
    }
    let time = time_of(src.time_u8(1, 5));
    let n = sh.n();
    let mut dep: SmallVec<[SystemId; 4]> = SmallVec::new();
    match deps {
        Deps::None => {}
        _ => {
            dep.push(SystemId(src.below(n)));
        }
    }
    let sys = SymSys { acc: DynAcc { reads: r.clone(), writes: w.clone() }, time };
    let tv = time as u8;

    b.insert(dep, SystemId(n), sys);

    // ---- lock-step of the five tables (I1)
    let tl = b.verif_table_lens();
    assert!(tl[0] == tl[1] && tl[1] == tl[2] && tl[2] == tl[3] && tl[3] == tl[4], "C04: the five planner tables differ in their number of stages");
    let ns = tl[0];
    assert!(ns == sh.s || ns == sh.s + 1, "C04: insert changed the number of stages by something other than 0 or +1");
    witness!(ns == sh.s + 1, "W: new stage");
    witness!(ns == sh.s, "W: existing stage");

    let mut found = 0usize;
    let mut total_ids = 0usize;
    let mut s = 0;
    while s < MS {
        if s < ns {
            let sl = b.verif_stage_lens(s);
            assert!(sl[0] == sl[1] && sl[1] == sl[2] && sl[2] == sl[3] && sl[3] == sl[4], "C04: the five planner tables differ in the number of groups of a stage");
            let ng = sl[0];
            assert!(ng >= 1 && ng <= MG, "C04: a stage without groups (or beyond the harness bound)");
            if s < sh.s {
                assert!(ng == sh.g || ng == sh.g + 1, "C04: insert changed the number of groups of a stage by something other than 0 or +1");
            } else {
                assert!(ng == 1, "C04: a new stage must hold exactly one new group");
            }
            let mut g = 0;
            while g < MG {
                if g < ng {
                    let nid = b.verif_ids(s, g).len();
                    assert!(nid == b.verif_exec_len(s, g), "C04: id table and executed list differ in a slot (a system is tabulated but not executed, or executed twice)");
                    assert!(nid >= 1 && nid <= 5, "C18: empty or over-full group");
                    total_ids += nid;
                    let here = has_id(&b, s, g, n);
                    found += here;
                    let existed = s < sh.s && g < sh.g;
                    let gr = b.verif_reads(s, g);
                    let gw = b.verif_writes(s, g);
                    if here > 0 {
                        witness!(existed, "W: joined a group");
                        witness!(!existed, "W: fresh group");
                        // everything the system declared is tabulated in its slot
                        let mut i = 0;
                        while i < new_r {
                            assert!(contains(gr, &r[i]), "C01: a declared read is missing from the access table of the system's slot");
                            i += 1;
                        }
                        let mut i = 0;
                        while i < new_w {
                            assert!(contains(gw, &w[i]), "C01: a declared write is missing from the access table of the system's slot");
                            i += 1;
                        }
                        // and nothing is invented
                        let mut i = 0;
                        while i < gr.len() {
                            assert!(contains(&r, &gr[i]) || (existed && contains(&pre_r[s][g], &gr[i])), "C19: the slot's read table holds an id nobody declared");
                            i += 1;
                        }
                        let mut i = 0;
                        while i < gw.len() {
                            assert!(contains(&w, &gw[i]) || (existed && contains(&pre_w[s][g], &gw[i])), "C19: the slot's write table holds an id nobody declared");
                            i += 1;
                        }
                        if existed {
                            assert!(nid == sh.l + 1, "C04: the joined group did not grow by exactly one system");
                            assert!(b.verif_ids(s, g)[sh.l].0 == n, "C02: the new system is not appended at the end of the group it joins");
                            assert!(b.verif_time(s, g) == pre_t[s][g] + tv, "C10: accumulated running time of the joined group is not old + new");
                            let mut i = 0;
                            while i < sh.nr {
                                assert!(contains(gr, &pre_r[s][g][i]), "C01: joining a group dropped a read the group already had");
                                i += 1;
                            }
                            let mut i = 0;
                            while i < sh.nw {
                                assert!(contains(gw, &pre_w[s][g][i]), "C01: joining a group dropped a write the group already had");
                                i += 1;
                            }
                        } else {
                            assert!(nid == 1, "C04: a fresh group holds more than the new system");
                            assert!(b.verif_time(s, g) == tv, "C10: running time of a fresh group is not the new system's");
                        }
                    } else {
                        // untouched slot
                        assert!(existed, "C04: insert created a group that does not hold the new system");
                        assert!(nid == sh.l, "C04: a slot the system did not join changed its size");
                        assert!(gr.len() == sh.nr && gw.len() == sh.nw, "C01: the access table of an untouched slot changed");
                        let mut i = 0;
                        while i < sh.nr {
                            assert!(gr[i] == pre_r[s][g][i], "C01: the access table of an untouched slot changed");
                            i += 1;
                        }
                        let mut i = 0;
                        while i < sh.nw {
                            assert!(gw[i] == pre_w[s][g][i], "C01: the access table of an untouched slot changed");
                            i += 1;
                        }
                        assert!(b.verif_time(s, g) == pre_t[s][g], "C10: running time of an untouched slot changed");
                    }
                }
                g += 1;
            }
        }
        s += 1;
    }
    assert!(found == 1, "C04: the new system's id is not tabulated exactly once");
    // where it went: never in front of the barrier (the decision is insertion_target's, insert must follow it)
    let mut s = 0;
    while s < MS {
        if s < ns && s < barrier {
            let ng = b.verif_stage_lens(s)[0];
            let mut g = 0;
            while g < MG {
                if g < ng {
                    assert!(has_id(&b, s, g, n) == 0, "C03: insert placed the system in a stage in front of the barrier");
                }
                g += 1;
            }
        }
        s += 1;
    }
    assert!(total_ids == n + 1, "C04: the number of tabulated systems did not grow by exactly one");
    assert!(b.verif_barrier() == barrier, "C03: insert moved the barrier");
    std::mem::forget(b);
}

// (Instances with fixed contents were tried to pin the Group / Stage decisions: CBMC does not fold the
// decision through the heap tables (abort / no result in 20 min). Those two paths of the commit are
// decided by E2 on the MIR of insert instead - see vlib/mirchecks.py spec_insert.)

macro_rules! commit_instances {
    ($( $name:ident : $s:expr, $g:expr, $l:expr, $nr:expr, $nw:expr, $bar:expr, $deps:expr, $newr:expr, $neww:expr, $unw:expr );* $(;)?) => {
        $(
            #[cfg_attr(kani, kani::proof)]
            #[cfg_attr(kani, kani::unwind($unw))]
            pub fn $name() {
                commit(Shape { s: $s, g: $g, l: $l, nr: $nr, nw: $nw }, $bar, $deps, $newr, $neww);
            }
        )*
        pub const INSTANCES: &[(&str, fn())] = &[ $( (stringify!($name), $name as fn()) ),* ];
    };
}

include!("commit_instances.in");
