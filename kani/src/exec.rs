//! Executor harnesses: the real `Dispatcher` / `SendDispatcher` / `Stage` code runs directly
//! constructed layouts of self-identifying systems against the rayon *contract model*; the
//! event log shows which closures the real code handed to one parallel region (may overlap)
//! and which it sequenced.  Decides the executor parts of C01, C04, C05, C11, C12, C13.

use crate::sym::*;
use crate::vocab::{DynAcc, DynData};
use crate::witness;
use shred::verif_hooks::{new_dispatcher, Stage, ThreadLocal, VerifBatchSystem};
use shred::{AccessorCow, BatchAccessor, BatchController, Dispatcher, RunNow, System, World};
use std::sync::{Arc, RwLock};

pub const RUN: u8 = 1;
pub const SETUP: u8 = 2;
pub const DISPOSE: u8 = 3;

#[derive(Clone, Copy)]
pub struct Ev {
    pub id: usize,
    pub kind: u8,
    pub region: usize,
    pub job: usize,
    pub pool: usize,
}

const CAP: usize = 64;
static mut LOG: [Ev; CAP] = [Ev { id: 0, kind: 0, region: 0, job: 0, pool: 0 }; CAP];
static mut NLOG: usize = 0;

pub fn log_event(id: usize, kind: u8) {
    log(id, kind)
}

fn log(id: usize, kind: u8) {
    let (region, job, pool) = rayon::model_position();
    unsafe {
        if NLOG < CAP {
            LOG[NLOG] = Ev { id, kind, region, job, pool };
        }
        NLOG += 1;
    }
}

pub fn nlog() -> usize {
    unsafe { NLOG }
}
pub fn ev(i: usize) -> Ev {
    unsafe { LOG[i] }
}
pub fn reset_log() {
    unsafe { NLOG = 0 }
}

pub fn count(id: usize, kind: u8, from: usize) -> usize {
    let mut c = 0;
    let mut i = from;
    while i < nlog() {
        let e = ev(i);
        if e.id == id && e.kind == kind {
            c += 1;
        }
        i += 1;
    }
    c
}

/// index of the first event (id, kind) at or after `from` (nlog() if none)
pub fn find(id: usize, kind: u8, from: usize) -> usize {
    let mut r = nlog();
    let mut i = nlog();
    while i > from {
        i -= 1;
        let e = ev(i);
        if e.id == id && e.kind == kind {
            r = i;
        }
    }
    r
}

/// Ordinary (Send) system that records what happens to it.
pub struct LogSys {
    pub id: usize,
    acc: DynAcc,
}

pub fn logsys(id: usize) -> LogSys {
    LogSys { id, acc: DynAcc { reads: Vec::new(), writes: Vec::new() } }
}

impl<'a> System<'a> for LogSys {
    type SystemData = DynData;
    fn run(&mut self, _: DynData) {
        log(self.id, RUN);
    }
    fn accessor<'b>(&'b self) -> AccessorCow<'a, 'b, Self> {
        AccessorCow::Ref(&self.acc)
    }
    fn setup(&mut self, _: &mut World) {
        log(self.id, SETUP);
    }
    fn dispose(self, _: &mut World) {
        log(self.id, DISPOSE);
    }
}

/// Thread-local system: deliberately `!Send` (raw pointer field).
pub struct TlSys {
    pub id: usize,
    _not_send: *const u8,
}

pub fn tlsys(id: usize) -> TlSys {
    TlSys { id, _not_send: std::ptr::null() }
}

impl<'a> RunNow<'a> for TlSys {
    fn run_now(&mut self, _: &'a World) {
        log(self.id, RUN);
    }
    fn setup(&mut self, _: &mut World) {
        log(self.id, SETUP);
    }
    fn dispose(self: Box<Self>, _: &mut World) {
        log(self.id, DISPOSE);
    }
}

/// Batch controller dispatching the inner dispatcher `n` times.
pub struct Ctl {
    pub id: usize,
    pub n: usize,
}

impl<'a, 'b, 'c> BatchController<'a, 'b, 'c> for Ctl {
    type BatchSystemData = ();
    fn run(&mut self, world: &'c World, d: &mut Dispatcher<'a, 'b>) {
        log(self.id, RUN);
        let mut i = 0;
        while i < self.n {
            d.dispatch(world);
            i += 1;
        }
    }
}

pub const MAXS: usize = 3;
pub const MAXG: usize = 3;

/// A concrete layout: lens[s][g] = number of systems in group g of stage s (0 = group absent).
#[derive(Clone, Copy)]
pub struct Layout {
    pub lens: [[usize; MAXG]; MAXS],
    pub n_tl: usize,
    /// inner layout of a batch placed as an extra group of stage 0 (ids from 100), if any
    pub batch: Option<([[usize; MAXG]; MAXS], usize)>,
}

fn build_stages<'a>(lens: &[[usize; MAXG]; MAXS], first_id: usize) -> (Vec<Stage<'a>>, usize) {
    let mut stages = Vec::with_capacity(MAXS);
    let mut id = first_id;
    let mut s = 0;
    while s < MAXS {
        let mut has = false;
        let mut g = 0;
        while g < MAXG {
            if lens[s][g] > 0 {
                has = true;
            }
            g += 1;
        }
        if has {
            let mut st = Stage::verif_new();
            let mut gi = 0;
            let mut g = 0;
            while g < MAXG {
                if lens[s][g] > 0 {
                    st.verif_push_group();
                    let mut k = 0;
                    while k < lens[s][g] {
                        st.verif_push(gi, Box::new(logsys(id)));
                        id += 1;
                        k += 1;
                    }
                    gi += 1;
                }
                g += 1;
            }
            stages.push(st);
        }
        s += 1;
    }
    (stages, id)
}

fn build_tl<'b>(n: usize, first_id: usize) -> ThreadLocal<'b> {
    let mut tl: ThreadLocal<'b> = Default::default();
    let mut i = 0;
    while i < n {
        tl.push(Box::new(tlsys(first_id + i)));
        i += 1;
    }
    tl
}

pub const TL_BASE: usize = 50;
pub const BATCH_CTL: usize = 99;
pub const INNER_BASE: usize = 100;
pub const INNER_TL_BASE: usize = 150;

pub struct Built<'a, 'b> {
    pub d: Dispatcher<'a, 'b>,
    pub pool_id: usize,
    pub n_ord: usize,
    pub n_inner: usize,
}

pub fn build<'a, 'b: 'a>(l: &Layout, batch_runs: usize) -> Built<'a, 'b> {
    let pool = Arc::new(rayon::ThreadPoolBuilder::new().build().unwrap());
    let pool_id = pool.id;
    let tp = Arc::new(RwLock::new(Some(pool)));
    let (mut stages, next) = build_stages(&l.lens, 1);
    let n_ord = next - 1;
    let mut n_inner = 0;
    if let Some((ilens, itl)) = l.batch {
        let (istages, inext) = build_stages(&ilens, INNER_BASE);
        n_inner = inext - INNER_BASE;
        let inner = new_dispatcher(istages, build_tl(itl, INNER_TL_BASE), tp.clone());
        let bs = VerifBatchSystem::new(BatchAccessor::new(Vec::new(), Vec::new()), Ctl { id: BATCH_CTL, n: batch_runs }, inner);
        // the batch is one more group of stage 0
        stages[0].verif_push_group();
        let g = stages[0].verif_num_groups() - 1;
        stages[0].verif_push(g, bs.into_exec());
    }
    let d = new_dispatcher(stages, build_tl(l.n_tl, TL_BASE), tp);
    Built { d, pool_id, n_ord, n_inner }
}

/// position (stage, group, index) of ordinary system `id` (ids 1.. in slot order) in `lens`
fn pos(lens: &[[usize; MAXG]; MAXS], first_id: usize, id: usize) -> (usize, usize, usize) {
    let mut cur = first_id;
    let mut r = (9, 9, 9);
    let mut s = 0;
    while s < MAXS {
        let mut g = 0;
        while g < MAXG {
            let mut k = 0;
            while k < lens[s][g] {
                if cur == id {
                    r = (s, g, k);
                }
                cur += 1;
                k += 1;
            }
            g += 1;
        }
        s += 1;
    }
    r
}

/// Checks one parallel dispatch recorded in the log from index `from`.
fn check_par(l: &Layout, b: &Built, from: usize, with_tl: bool) {
    // C04: every ordinary system exactly once
    let mut id = 1;
    while id <= b.n_ord {
        assert!(count(id, RUN, from) == 1, "C04: an ordinary system did not run exactly once in one dispatch");
        id += 1;
    }
    // pairwise structure
    let mut a = 1;
    while a <= b.n_ord {
        let ia = find(a, RUN, from);
        let ea = ev(ia);
        assert!(ea.pool == b.pool_id, "C11: a system of a parallel dispatch ran outside the dispatcher's pool");
        assert!(ea.region != 0, "C11: a system of a parallel dispatch was not started as a job of a parallel region");
        let (sa, ga, ka) = pos(&l.lens, 1, a);
        let mut c = a + 1;
        while c <= b.n_ord {
            let ic = find(c, RUN, from);
            let ec = ev(ic);
            let (sc, gc, kc) = pos(&l.lens, 1, c);
            if sa == sc && ga != gc {
                assert!(ea.region == ec.region && ea.job != ec.job, "C11: groups of one stage are not independent jobs of one parallel region");
            } else if sa == sc && ga == gc {
                assert!(ea.region == ec.region && ea.job == ec.job, "C01: systems of one group were split over jobs (may overlap)");
                assert!((ka < kc) == (ia < ic), "C02: systems of one group ran out of order");
            } else {
                assert!(ea.region != ec.region, "C01: systems of different stages share a parallel region (may overlap)");
                assert!((sa < sc) == (ia < ic), "C03: stages ran out of order");
            }
            c += 1;
        }
        a += 1;
    }
    // C12: thread-local systems
    let mut t = 0;
    while t < l.n_tl {
        let c = count(TL_BASE + t, RUN, from);
        if with_tl {
            assert!(c == 1, "C12: a thread-local system did not run exactly once in dispatch");
            let it = find(TL_BASE + t, RUN, from);
            let e = ev(it);
            assert!(e.pool == 0 && e.region == 0, "C12: a thread-local system ran inside the pool");
            let mut o = 1;
            while o <= b.n_ord {
                assert!(find(o, RUN, from) < it, "C12: a thread-local system started before an ordinary system had finished");
                o += 1;
            }
            if t > 0 {
                assert!(find(TL_BASE + t - 1, RUN, from) < it, "C12: thread-local systems ran out of registration order");
            }
        } else {
            assert!(c == 0, "C12: dispatch_par / dispatch_seq ran a thread-local system");
        }
        t += 1;
    }
}

fn check_seq(l: &Layout, b: &Built, from: usize) {
    let mut id = 1;
    let mut last = from;
    while id <= b.n_ord {
        assert!(count(id, RUN, from) == 1, "C04: an ordinary system did not run exactly once in one sequential dispatch");
        let i = find(id, RUN, from);
        // slot order == run order (ids are numbered in slot order)
        assert!(id == 1 || i > last, "C05: dispatch_seq does not follow stage/group/position order");
        assert!(ev(i).region == 0 && ev(i).pool == 0, "C05: dispatch_seq started a parallel region");
        last = i;
        id += 1;
    }
    let mut t = 0;
    while t < l.n_tl {
        assert!(count(TL_BASE + t, RUN, from) == 0, "C12: dispatch_par / dispatch_seq ran a thread-local system");
        t += 1;
    }
}

fn check_batch(l: &Layout, b: &Built, from: usize, times: usize) {
    if let Some((ilens, itl)) = l.batch {
        assert!(count(BATCH_CTL, RUN, from) == 1, "C04: the batch controller did not run exactly once per outer dispatch");
        let mut i = 0;
        while i < b.n_inner {
            assert!(count(INNER_BASE + i, RUN, from) == times, "C04: a system inside a batch did not run once per inner dispatch");
            if times > 0 {
                let e = ev(find(INNER_BASE + i, RUN, from));
                assert!(e.pool == b.pool_id, "C11: the batch's inner dispatcher does not use the outer pool");
            }
            i += 1;
        }
        // inner structure of the first inner dispatch
        if times >= 1 {
            let mut a = 0;
            while a < b.n_inner {
                let (sa, ga, _) = pos(&ilens, INNER_BASE, INNER_BASE + a);
                let ea = ev(find(INNER_BASE + a, RUN, from));
                let mut c = a + 1;
                while c < b.n_inner {
                    let (sc, gc, _) = pos(&ilens, INNER_BASE, INNER_BASE + c);
                    let ec = ev(find(INNER_BASE + c, RUN, from));
                    if sa == sc && ga != gc {
                        assert!(ea.region == ec.region && ea.job != ec.job, "C11: groups of one inner stage are not independent jobs of one parallel region");
                    } else if sa != sc {
                        assert!(ea.region != ec.region, "C07: inner systems of different stages share a parallel region");
                    }
                    c += 1;
                }
                a += 1;
            }
        }
        let mut t = 0;
        while t < itl {
            let c = count(INNER_TL_BASE + t, RUN, from);
            assert!(c == times, "C04: a thread-local system inside a batch did not run once per inner dispatch");
            if c > 0 {
                let e = ev(find(INNER_TL_BASE + t, RUN, from));
                assert!(e.pool == 0, "C12[add_batch:thread_local_nonempty]: a thread-local system of a batched builder ran on a pool worker");
            }
            t += 1;
        }
    }
}

/// One harness body: build, setup, a solver-chosen sequence of dispatch calls, dispose.
/// `calls`: the two dispatch calls (0 dispatch, 1 dispatch_par, 2 dispatch_seq, 3 dispatch_thread_local);
/// `end`: 0 = dispose, 1 = try_into_sendable; `batch_runs`: inner dispatches per controller run.
/// Solver variable: the order in which the jobs of every parallel region are started.
pub fn exec_harness(l: Layout, calls: [u8; 2], end: u8, batch_runs: usize) {
    reset_log();
    rayon::MODEL_REVERSE.store(any_bool(), std::sync::atomic::Ordering::SeqCst);
    // pool size: a solver variable (only code that asks rayon for it depends on it)
    let nthreads = any_usize();
    assume(nthreads >= 1 && nthreads <= 16);
    rayon::MODEL_NUM_THREADS.store(nthreads, std::sync::atomic::Ordering::SeqCst);
    let mut b = build(&l, batch_runs);
    let mut w = World::empty();

    // layout hook agrees with what was built (C04 / shape hook)
    let (lay, ntl) = b.d.verif_layout();
    let mut total = 0;
    let mut widest = 0;
    let mut s = 0;
    while s < lay.len() {
        if lay[s].len() > widest {
            widest = lay[s].len();
        }
        let mut g = 0;
        while g < lay[s].len() {
            total += lay[s][g];
            g += 1;
        }
        s += 1;
    }
    assert!(total == b.n_ord + if l.batch.is_some() { 1 } else { 0 } && ntl == l.n_tl, "C04: executed layout does not hold the systems that were put in");
    assert!(b.d.max_threads() == widest, "C10: max_threads is not the width of the widest stage");

    // C13 setup
    b.d.setup(&mut w);
    let mut id = 1;
    while id <= b.n_ord {
        assert!(count(id, SETUP, 0) == 1, "C13: setup did not reach an ordinary system exactly once");
        id += 1;
    }
    let mut t = 0;
    while t < l.n_tl {
        assert!(count(TL_BASE + t, SETUP, 0) == 1, "C13: setup did not reach a thread-local system exactly once");
        t += 1;
    }
    if let Some((_, itl)) = l.batch {
        let mut i = 0;
        while i < b.n_inner {
            assert!(count(INNER_BASE + i, SETUP, 0) == 1, "C13: setup did not reach a system inside a batch exactly once");
            i += 1;
        }
        let mut t = 0;
        while t < itl {
            assert!(count(INNER_TL_BASE + t, SETUP, 0) == 1, "C13: setup did not reach a thread-local system inside a batch exactly once");
            t += 1;
        }
    }

    // two dispatch calls, each of a solver-chosen kind
    let mut round = 0;
    while round < 2 {
        let from = nlog();
        let which = calls[round];
        if which == 0 {
            b.d.dispatch(&w);
            check_par(&l, &b, from, true);
            check_batch(&l, &b, from, batch_runs);
            witness!(true, "W: dispatch checked");
        } else if which == 1 {
            b.d.dispatch_par(&w);
            check_par(&l, &b, from, false);
            check_batch(&l, &b, from, batch_runs);
            witness!(true, "W: dispatch_par checked");
        } else if which == 2 {
            b.d.dispatch_seq(&w);
            check_seq(&l, &b, from);
            check_batch(&l, &b, from, batch_runs);
            witness!(true, "W: dispatch_seq checked");
        } else {
            b.d.dispatch_thread_local(&w);
            let mut id = 1;
            while id <= b.n_ord {
                assert!(count(id, RUN, from) == 0, "C12: dispatch_thread_local ran an ordinary system");
                id += 1;
            }
            let mut t = 0;
            while t < l.n_tl {
                assert!(count(TL_BASE + t, RUN, from) == 1, "C12: dispatch_thread_local did not run a thread-local system exactly once");
                t += 1;
            }
            witness!(true, "W: dispatch_thread_local checked");
        }
        round += 1;
    }

    // C12: conversion to the sendable form
    if end == 1 {
        match b.d.try_into_sendable() {
            Ok(sd) => {
                assert!(l.n_tl == 0, "C12: a dispatcher with thread-local systems was converted to its sendable form");
                let lay2 = sd.verif_layout();
                assert!(lay2.len() == lay.len(), "C12: conversion to the sendable form changed the plan");
                let mut s = 0;
                while s < lay.len() {
                    assert!(lay2[s].len() == lay[s].len(), "C12: conversion to the sendable form changed the plan");
                    let mut g = 0;
                    while g < lay[s].len() {
                        assert!(lay2[s][g] == lay[s][g], "C12: conversion to the sendable form changed the plan");
                        g += 1;
                    }
                    s += 1;
                }
                witness!(true, "W: try_into_sendable Ok");
                std::mem::forget(sd);
            }
            Err(d) => {
                assert!(l.n_tl > 0, "C12: a dispatcher without thread-local systems was refused conversion");
                witness!(true, "W: try_into_sendable Err");
                std::mem::forget(d);
            }
        }
    } else {
        // C13 dispose
        let from = nlog();
        b.d.dispose(&mut w);
        let mut id = 1;
        while id <= b.n_ord {
            assert!(count(id, DISPOSE, from) == 1, "C13: dispose did not reach an ordinary system exactly once");
            id += 1;
        }
        let mut t = 0;
        while t < l.n_tl {
            assert!(count(TL_BASE + t, DISPOSE, from) == 1, "C13: dispose did not reach a thread-local system exactly once");
            t += 1;
        }
        if l.batch.is_some() {
            let mut i = 0;
            while i < b.n_inner {
                assert!(count(INNER_BASE + i, DISPOSE, from) == 1, "C13[batch-dispose]: dispose did not reach a system inside a batch exactly once");
                i += 1;
            }
        }
        witness!(true, "W: dispose checked");
    }
    std::mem::forget(w);
}

macro_rules! exec_instances {
    ($( $name:ident : $lens:expr, $ntl:expr, $batch:expr, $calls:expr, $end:expr, $runs:expr, $unw:expr );* $(;)?) => {
        $(
            #[cfg_attr(kani, kani::proof)]
            #[cfg_attr(kani, kani::unwind($unw))]
            pub fn $name() {
                exec_harness(Layout { lens: $lens, n_tl: $ntl, batch: $batch }, $calls, $end, $runs);
            }
        )*
        pub const INSTANCES: &[(&str, fn())] = &[ $( (stringify!($name), $name as fn()) ),* ];
    };
}

const LA: [[usize; MAXG]; MAXS] = [[1, 2, 0], [1, 0, 0], [0, 0, 0]]; // [[1],[2,3]],[[4]]
const LB: [[usize; MAXG]; MAXS] = [[5, 1, 0], [0, 0, 0], [0, 0, 0]]; // a full group next to a single system
const LC: [[usize; MAXG]; MAXS] = [[1, 1, 1], [1, 0, 0], [1, 1, 0]]; // three stages, widths 3/1/2
const LD: [[usize; MAXG]; MAXS] = [[1, 0, 0], [1, 0, 0], [0, 0, 0]]; // outer layout of the batch instances
const LI: [[usize; MAXG]; MAXS] = [[1, 1, 0], [1, 0, 0], [0, 0, 0]]; // inner layout of the batch
const L1: [[usize; MAXG]; MAXS] = [[1, 0, 0], [0, 0, 0], [0, 0, 0]];

include!("exec_instances.in");
