//! Shared vocabulary of the E1 harnesses: symbolic resources, harness systems, pre-state
//! construction through the `verif-hooks`, and the harness's own conflict oracle.

use crate::sym::*;
use shred::verif_hooks::{StagesBuilder, SystemId};
use shred::{Accessor, AccessorCow, DynamicSystemData, ResourceId, RunningTime, System, World};

pub struct R0;
pub struct R1;

/// Number of dynamic ids per static type used by symbolic resources.
pub const R_DYN: u64 = 3;

pub fn rid(ty1: bool, d: u64) -> ResourceId {
    if ty1 {
        ResourceId::new_with_dynamic_id::<R1>(d)
    } else {
        ResourceId::new_with_dynamic_id::<R0>(d)
    }
}

/// A symbolic resource id: static type in {R0, R1}, dynamic id in 0..R_DYN.
pub fn any_rid() -> ResourceId {
    let t = any_bool();
    let d = any_u64();
    assume(d < R_DYN);
    rid(t, d)
}

pub fn any_time() -> RunningTime {
    let t = any_u8();
    assume(t >= 1 && t <= 5);
    match t {
        1 => RunningTime::VeryShort,
        2 => RunningTime::Short,
        3 => RunningTime::Average,
        4 => RunningTime::Long,
        _ => RunningTime::VeryLong,
    }
}

pub fn any_rids(n: usize) -> Vec<ResourceId> {
    let mut v = Vec::with_capacity(n);
    let mut i = 0;
    while i < n {
        v.push(any_rid());
        i += 1;
    }
    v
}

/// `StagesBuilder::insert` hands `insertion_target` the declared reads sorted and de-duplicated (writes as
/// declared): harnesses that call `insertion_target` directly assume the same of the reads they pass.
pub fn assume_sorted_dedup(v: &[ResourceId]) {
    let mut i = 0;
    while i + 1 < v.len() {
        assume(v[i] < v[i + 1]);
        i += 1;
    }
}

/// position `i` of the `k`-th ordering of `n <= 3` items (k < 6 chosen by the solver)
pub fn order_at(n: usize, k: usize, i: usize) -> usize {
    const P3: [[usize; 3]; 6] = [[0, 1, 2], [0, 2, 1], [1, 0, 2], [1, 2, 0], [2, 0, 1], [2, 1, 0]];
    if n <= 1 {
        0
    } else if n == 2 {
        if k % 2 == 0 { i } else { 1 - i }
    } else {
        P3[k % 6][i]
    }
}

// ---------------------------------------------------------------------------------------------
// harness systems

pub struct DynAcc {
    pub reads: Vec<ResourceId>,
    pub writes: Vec<ResourceId>,
}

impl Accessor for DynAcc {
    fn try_new() -> Option<Self> {
        None
    }
    fn reads(&self) -> Vec<ResourceId> {
        self.reads.clone()
    }
    fn writes(&self) -> Vec<ResourceId> {
        self.writes.clone()
    }
}

/// System data that fetches nothing from the `World` (keeps hashbrown out of the formula).
pub struct DynData;

impl<'a> DynamicSystemData<'a> for DynData {
    type Accessor = DynAcc;
    fn setup(_: &DynAcc, _: &mut World) {}
    fn fetch(_: &DynAcc, _: &'a World) -> Self {
        DynData
    }
}

/// A system with an arbitrary (symbolic) declaration; `run` does nothing.
pub struct SymSys {
    pub acc: DynAcc,
    pub time: RunningTime,
}

impl<'a> System<'a> for SymSys {
    type SystemData = DynData;
    fn run(&mut self, _: DynData) {}
    fn running_time(&self) -> RunningTime {
        self.time
    }
    fn accessor<'b>(&'b self) -> AccessorCow<'a, 'b, Self> {
        AccessorCow::Ref(&self.acc)
    }
}

/// Zero-sized filler used to give the executed list the same shape as the id table.
pub struct Nop;

impl<'a> System<'a> for Nop {
    type SystemData = ();
    fn run(&mut self, _: ()) {}
}

// ---------------------------------------------------------------------------------------------
// pre-state

/// Concrete shape of a pre-state: `s` stages, each with `g` groups, each with `l` systems,
/// `nr` reads and `nw` writes per group. Ids are 0..s*g*l in slot order.
#[derive(Clone, Copy)]
pub struct Shape {
    pub s: usize,
    pub g: usize,
    pub l: usize,
    pub nr: usize,
    pub nw: usize,
}

impl Shape {
    pub fn n(&self) -> usize {
        self.s * self.g * self.l
    }
    // position of an id, by comparisons only (symbolic division is expensive to bit-blast)
    pub fn stage_of(&self, id: usize) -> usize {
        let per = self.g * self.l;
        let mut s = 0;
        let mut k = 1;
        while k < self.s {
            if id >= k * per {
                s = k;
            }
            k += 1;
        }
        s
    }
    pub fn group_of(&self, id: usize) -> usize {
        let per = self.g * self.l;
        let base = self.stage_of(id) * per;
        let mut g = 0;
        let mut k = 1;
        while k < self.g {
            if id >= base + k * self.l {
                g = k;
            }
            k += 1;
        }
        g
    }
}

/// Builds, through the hooks, a `StagesBuilder` whose five tables have the given concrete
/// shape and symbolic contents (reads, writes, accumulated running times).
pub fn pre_state<'a>(sh: Shape, barrier: usize) -> StagesBuilder<'a> {
    pre_state_ids(sh, barrier, None)
}

pub const MAXN: usize = 8;

/// A solver-chosen permutation of 0..n (n <= MAXN): which system id sits in which slot. Real builders
/// do produce non-monotone ids across stages (a later, conflict-free system is back-filled into an
/// earlier stage), so "ids in slot order" would hide bugs that depend on id order.
pub fn any_permutation(n: usize) -> [usize; MAXN] {
    let mut p = [0usize; MAXN];
    let mut i = 0;
    while i < n {
        p[i] = any_below(n);
        i += 1;
    }
    let mut i = 0;
    while i < n {
        let mut j = i + 1;
        while j < n {
            assume(p[i] != p[j]);
            j += 1;
        }
        i += 1;
    }
    p
}

/// table look-up by comparisons (concrete loop)
pub fn perm_at(p: &[usize; MAXN], n: usize, slot: usize) -> usize {
    let mut r = 0;
    let mut k = 0;
    while k < n {
        if slot == k {
            r = p[k];
        }
        k += 1;
    }
    r
}

pub fn pre_state_ids<'a>(sh: Shape, barrier: usize, ids: Option<&[usize; MAXN]>) -> StagesBuilder<'a> {
    let mut b = StagesBuilder::verif_with_capacity(sh.s + 1);
    let mut id = 0usize;
    let mut s = 0;
    while s < sh.s {
        b.verif_add_stage();
        let mut g = 0;
        while g < sh.g {
            b.verif_add_group(s);
            let mut l = 0;
            while l < sh.l {
                let sid = match ids {
                    Some(p) => p[id],
                    None => id,
                };
                b.verif_push_slot(s, g, SystemId(sid), Box::new(Nop));
                id += 1;
                l += 1;
            }
            let mut i = 0;
            while i < sh.nr {
                b.verif_push_read(s, g, any_rid());
                i += 1;
            }
            let mut i = 0;
            while i < sh.nw {
                b.verif_push_write(s, g, any_rid());
                i += 1;
            }
            // I4: accumulated time of a group of l systems lies in l..=5l
            let t = any_u8();
            assume(t as usize >= sh.l && t as usize <= 5 * sh.l);
            b.verif_set_time(s, g, t);
            g += 1;
        }
        s += 1;
    }
    b.verif_set_barrier(barrier);
    b
}

// ---------------------------------------------------------------------------------------------
// oracle

pub fn contains(v: &[ResourceId], x: &ResourceId) -> bool {
    let mut f = false;
    let mut i = 0;
    while i < v.len() {
        if v[i] == *x {
            f = true;
        }
        i += 1;
    }
    f
}

pub fn intersects(a: &[ResourceId], b: &[ResourceId]) -> bool {
    let mut f = false;
    let mut i = 0;
    while i < a.len() {
        if contains(b, &a[i]) {
            f = true;
        }
        i += 1;
    }
    f
}

/// The harness's own definition of "conflict" between a declaration (r, w) and the accumulated
/// access of group (s, g): W/W, W/R or R/W on the full `ResourceId`.
pub fn conflicts(b: &StagesBuilder, s: usize, g: usize, r: &[ResourceId], w: &[ResourceId]) -> bool {
    let gr = b.verif_reads(s, g);
    let gw = b.verif_writes(s, g);
    intersects(w, gr) || intersects(w, gw) || intersects(r, gw)
}

pub fn conflicts_stage(b: &StagesBuilder, s: usize, ng: usize, r: &[ResourceId], w: &[ResourceId]) -> bool {
    let mut f = false;
    let mut g = 0;
    while g < ng {
        if conflicts(b, s, g, r, w) {
            f = true;
        }
        g += 1;
    }
    f
}
