//! Unit harnesses for planner helpers that other checks rely on:
//! `fetch_all_reads` / `fetch_all_writes` (C07: a batch's access is the union over the whole inner
//! builder) and `add_barrier` (C03).

use crate::sym::*;
use crate::vocab::*;
use crate::witness;
use shred::ResourceId;

pub fn fetch_all(sh: Shape) {
    let b = pre_state(sh, 0);
    let all_r = b.fetch_all_reads();
    let all_w = b.fetch_all_writes();
    let mut s = 0;
    while s < sh.s {
        let mut g = 0;
        while g < sh.g {
            let gr = b.verif_reads(s, g);
            let gw = b.verif_writes(s, g);
            let mut i = 0;
            while i < sh.nr {
                assert!(contains(&all_r, &gr[i]), "C07: fetch_all_reads misses a read of some group of the inner builder");
                i += 1;
            }
            let mut i = 0;
            while i < sh.nw {
                assert!(contains(&all_w, &gw[i]), "C07: fetch_all_writes misses a write of some group of the inner builder");
                i += 1;
            }
            g += 1;
        }
        s += 1;
    }
    // nothing invented, reads and writes not mixed up
    let mut i = 0;
    while i < all_r.len() {
        assert!(in_any(&b, sh, &all_r[i], true), "C07: fetch_all_reads reports an id that no group reads");
        i += 1;
    }
    let mut i = 0;
    while i < all_w.len() {
        assert!(in_any(&b, sh, &all_w[i], false), "C07: fetch_all_writes reports an id that no group writes");
        i += 1;
    }
    assert!(all_r.len() <= sh.s * sh.g * sh.nr && all_w.len() <= sh.s * sh.g * sh.nw, "C07: fetch_all_* returns more ids than are tabulated");
    witness!(all_r.len() < sh.s * sh.g * sh.nr, "W: duplicates removed");
    witness!(all_r.len() == sh.s * sh.g * sh.nr, "W: all distinct");
    std::mem::forget(b);
}

fn in_any(b: &shred::verif_hooks::StagesBuilder, sh: Shape, x: &ResourceId, reads: bool) -> bool {
    let mut f = false;
    let mut s = 0;
    while s < sh.s {
        let mut g = 0;
        while g < sh.g {
            let t = if reads { b.verif_reads(s, g) } else { b.verif_writes(s, g) };
            if contains(t, x) {
                f = true;
            }
            g += 1;
        }
        s += 1;
    }
    f
}

pub fn add_barrier(sh: Shape) {
    let mut b = pre_state(sh, any_below(sh.s + 1));
    b.add_barrier();
    assert!(b.verif_barrier() == sh.s, "C03: add_barrier does not set the barrier to the current number of stages");
    b.add_barrier();
    assert!(b.verif_barrier() == sh.s, "C03: a repeated barrier changes something");
    let tl = b.verif_table_lens();
    assert!(tl[0] == sh.s && tl[3] == sh.s, "C03: add_barrier changed the tables");
    witness!(true, "W: end");
    std::mem::forget(b);
}

macro_rules! unit_instances {
    ($( $name:ident : $f:ident, $s:expr, $g:expr, $l:expr, $nr:expr, $nw:expr, $unw:expr );* $(;)?) => {
        $(
            #[cfg_attr(kani, kani::proof)]
            #[cfg_attr(kani, kani::unwind($unw))]
            pub fn $name() {
                $f(Shape { s: $s, g: $g, l: $l, nr: $nr, nw: $nw });
            }
        )*
        pub const INSTANCES: &[(&str, fn())] = &[ $( (stringify!($name), $name as fn()) ),* ];
    };
}

include!("unit_instances.in");
